#!/bin/bash
# usage: tools_verify_seed.sh <seed-dir containing patch.diff, demo/, meta.json> [check ids...]
# Confirms a seeded change independently in a fresh scratch worktree of /repo:
#   1. patch applies and builds, 2. the existing suite still passes with it, 3. the demonstration fails with it
#   and passes without it, 4. (optional) runs the given checks against the patched tree and reports their verdicts.
set -u
SD=$(realpath "$1"); shift
export GOFLAGS=-mod=mod GOPROXY=off GOSUMDB=off GOTOOLCHAIN=local
WT=/tmp/wt-seedverify-$$
git -C /repo worktree add -q --detach "$WT" HEAD || exit 3
trap 'git -C /repo worktree remove --force "$WT" >/dev/null 2>&1' EXIT
PLACE=$(python3 -c "import json,sys;print(json.load(open('$SD/meta.json'))['demo_place'])")
CMD=$(python3 -c "import json,sys;print(json.load(open('$SD/meta.json'))['demo_cmd'])")
DEMO=$(ls "$SD"/demo/* | head -1)
cd "$WT"
# demo without the change
mkdir -p "$(dirname "$PLACE")"; cp "$DEMO" "$PLACE"
( eval "$CMD" ) > /tmp/seedverify-$$-without.log 2>&1; RC_WITHOUT=$?
rm -f "$PLACE"
git apply "$SD/patch.diff" || { echo "PATCH DOES NOT APPLY"; exit 3; }
go build ./... > /tmp/seedverify-$$-build.log 2>&1 || { echo "BUILD FAILS"; cat /tmp/seedverify-$$-build.log | tail; exit 3; }
for attempt in 1 2 3 4; do
  go test -vet=off -count=1 ./... > /tmp/seedverify-$$-suite.log 2>&1; RC_SUITE=$?
  # other scratch copies may be running the same fixed-port tests at the same time
  if [ $RC_SUITE -ne 0 ] && grep -q "address already in use" /tmp/seedverify-$$-suite.log; then sleep $((RANDOM % 20 + 5)); else break; fi
done
cp "$DEMO" "$PLACE"
( eval "$CMD" ) > /tmp/seedverify-$$-with.log 2>&1; RC_WITH=$?
rm -f "$PLACE"
[ $RC_SUITE -ne 0 ] && grep -a -E "^(--- FAIL|FAIL|panic)" /tmp/seedverify-$$-suite.log | head
for id in "$@"; do
  VERIF_REPO="$WT" /verif/check "$id" --tier quick > /tmp/seedverify-$$-$id.log 2>&1; rc=$?
  echo "check $id rc=$rc $(grep -a -E '^(VIOLATION|INCONCLUSIVE)' /tmp/seedverify-$$-$id.log | cut -c1-200)"
done
echo "SUMMARY demo without change rc=$RC_WITHOUT (want 0); suite with change rc=$RC_SUITE (want 0); demo with change rc=$RC_WITH (want !=0)"
