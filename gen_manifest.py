#!/usr/bin/env python3
"""Regenerates MANIFEST.json from checks_table.py (run after editing the table)."""
import json, os, sys
sys.path.insert(0, os.path.dirname(os.path.abspath(__file__)))
from checks_table import CHECKS, NOT_APPLICABLE, REPO_HOOK_COMMITS

BASELINE_OFF = ("cd /repo && GOFLAGS=-mod=mod GOPROXY=off GOSUMDB=off GOTOOLCHAIN=local "
                "go test -json -vet=off -count=1 -timeout 25m ./...")

m = {
    "version": 1,
    "setup_cmd": "cd /verif && ./setup.sh",
    "hooks": {
        "guard": "verif",
        "enable": ("no source hooks in /repo: harness sources under /verif/harness carry '//go:build verif' and are compiled "
                   "into the socketace module with 'go test -tags verif -overlay=... -modfile=...' (see DESIGN.md 1.1)"),
        "baseline_off_cmd": BASELINE_OFF,
        "source_commits": REPO_HOOK_COMMITS,
        "add_only": True,
    },
    "engines": [
        {"name": "check.py", "path": "/verif/check.py", "serves_properties": sorted(CHECKS),
         "kind_free_text": "driver: builds the harness for one property against /repo's working tree (overlay + alternate modfile), "
                           "runs it (rapid property-based tests, enumerations, native fuzz in thorough), folds harness statistics "
                           "into evidence, applies known_findings.json, maps outcomes to exit 0/1/2"},
        {"name": "pgregory.net/rapid v1.3.0", "path": "/root/go/pkg/mod/pgregory.net/rapid@v1.3.0", "serves_properties": sorted(CHECKS),
         "kind_free_text": "property-based testing library (generators, state machines, shrinking, fail files)"},
    ],
    "checks": [],
    "not_applicable": NOT_APPLICABLE,
    "notes": "See DESIGN.md. Known findings: /verif/known_findings.json. Seeded mutations used for sensitivity: /verif/seeded/.",
}
for cid in sorted(CHECKS):
    c = CHECKS[cid]
    e = {
        "property_id": cid,
        "quick_cmd": "./check %s --tier quick" % cid,
        "thorough_cmd": "./check %s --tier thorough" % cid,
        "evidence_file": "/verif/evidence/%s.json" % cid,
        "replay_cmd_template": "./check %s --replay {path}" % cid,
        "engine": "check.py",
        "level_claimed": {"category": c["level"], "text": c["level_text"], "design_ref": c.get("design_ref", "DESIGN.md")},
        "level_note": c["level_note"],
        "technique": c["technique"],
    }
    m["checks"].append(e)
json.dump(m, open(os.path.join(os.path.dirname(os.path.abspath(__file__)), "MANIFEST.json"), "w"), indent=1)
print("MANIFEST.json written:", len(m["checks"]), "checks,", len(NOT_APPLICABLE), "not applicable")
