#!/bin/sh
# usage: ./run_all.sh [quick|thorough]  -- runs every check of MANIFEST.json in sequence and prints a one-line verdict each
TIER=${1:-quick}
cd "$(dirname "$0")"
for id in $(python3 -c "import json;print(' '.join(c['property_id'] for c in json.load(open('MANIFEST.json'))['checks']))"); do
  s=$(date +%s)
  out=$(./check $id --tier $TIER 2>&1); rc=$?
  e=$(date +%s)
  echo "$id rc=$rc $((e-s))s $(echo "$out" | grep -a -E '^(VIOLATION|INCONCLUSIVE|KNOWN-FINDING)' | cut -c1-160 | tr '\n' '|')"
done
