#!/bin/sh
# Offline setup: nothing to fetch. Warms the Go build cache for the harness dependencies so the first check is fast.
set -e
cd "$(dirname "$0")"
mkdir -p work bin evidence
export GOFLAGS=-mod=mod GOPROXY=off GOSUMDB=off GOTOOLCHAIN=local
python3 - <<'PY'
import sys, os
sys.path.insert(0, os.getcwd())
import check
from checks_table import CHECKS
ok = True
for cid in sorted(CHECKS):
    wd = os.path.join(check.VERIF, "work", cid)
    os.makedirs(wd, exist_ok=True)
    if check.build(cid, CHECKS[cid], wd) is None:
        ok = False
sys.exit(0 if ok else 1)
PY
