#!/usr/bin/env python3
"""Driver for the socketace property checks.

usage: check <ID> [--tier quick|thorough] [--replay <file>] [--keep]

exit 0  property held on everything explored (KNOWN-FINDING lines may be printed)
exit 1  VIOLATION property=<ID> replay=<path>
exit 2  inconclusive (build failure, harness timeout, worker death without a counter-example)
"""
import glob
import json
import os
import re
import shutil
import signal
import subprocess
import sys
import time

VERIF = os.path.dirname(os.path.abspath(__file__))
REPO = os.environ.get("VERIF_REPO", "/repo")
sys.path.insert(0, VERIF)
from checks_table import CHECKS  # noqa: E402

DEFAULT_SEED = 20260927

GOENV = {
    "GOFLAGS": "-mod=mod",
    "GOPROXY": "off",
    "GOSUMDB": "off",
    "GOTOOLCHAIN": "local",
}


def log(*a):
    print(*a, flush=True)


def effective_seed():
    raw = os.environ.get("VERIF_SEED", "")
    try:
        s = int(raw)
    except ValueError:
        s = 0
    if s == 0:
        s = DEFAULT_SEED
    return abs(s) % (1 << 62) or DEFAULT_SEED


def goenv():
    env = dict(os.environ)
    env.update(GOENV)
    env.pop("GOWORK", None)
    return env


SOCKETACE_LANG = "go1.21"


def write_modfile(workdir):
    """alternate go.mod: /repo/go.mod + rapid, go 1.18 (generics for rapid, still < 1.22 loopvar change)."""
    src = open(os.path.join(REPO, "go.mod")).read()
    out = re.sub(r"(?m)^go\s+1\.\d+(\.\d+)?\s*$", "go 1.18", src, count=1)
    if "pgregory.net/rapid" not in out:
        out += "\nrequire pgregory.net/rapid v1.3.0\n"
    mod = os.path.join(workdir, "go.mod")
    open(mod, "w").write(out)
    shutil.copyfile(os.path.join(REPO, "go.sum"), os.path.join(workdir, "go.sum"))
    extra = os.path.join(VERIF, "harness", "go.sum.extra")
    if os.path.exists(extra):
        with open(os.path.join(workdir, "go.sum"), "a") as f:
            f.write(open(extra).read())
    return mod


def write_overlay(workdir, spec):
    repl = {}
    hdir = os.path.join(VERIF, "harness")

    def add_pkg(name):
        for f in sorted(glob.glob(os.path.join(hdir, name, "*.go"))):
            repl[os.path.join(REPO, "internal", "zzverif", name, os.path.basename(f))] = f

    add_pkg("vcore")
    if "pkg" in spec:
        add_pkg("vlib")
    for extra in spec.get("libs", []):
        add_pkg(extra)
    if "pkg" in spec:
        add_pkg(spec["pkg"])
        target = "./internal/zzverif/" + spec["pkg"]
    else:
        # in-package harness: add our files, blank the package's own *_test.go files
        pdir = os.path.join(REPO, spec["inpkg"])
        for f in glob.glob(os.path.join(pdir, "*_test.go")):
            repl[f] = ""
        srcs = spec["src"] if isinstance(spec["src"], list) else [spec["src"]]
        for src in srcs:
            for f in sorted(glob.glob(os.path.join(hdir, src, "*.go"))):
                repl[os.path.join(pdir, "zz_verif_" + os.path.basename(f))] = f
        target = "./" + spec["inpkg"]
    ov = os.path.join(workdir, "overlay.json")
    json.dump({"Replace": repl}, open(ov, "w"), indent=1)
    return ov, target


def build(cid, spec, workdir, fuzz=None):
    mod = write_modfile(workdir)
    ov, target = write_overlay(workdir, spec)
    os.makedirs(os.path.join(VERIF, "bin"), exist_ok=True)
    out = os.path.join(VERIF, "bin", cid + (".fuzz" if fuzz else "") + ".test")
    cmd = ["go", "test", "-vet=off", "-tags", "verif", "-modfile=" + mod, "-overlay=" + ov, "-c", "-o", out]
    # rapid v1.3.0's own go.mod says "go 1.23", which makes -mod=mod raise the go line of the alternate modfile and
    # with it the language version of socketace's packages; /repo/go.mod says go 1.14, i.e. one shared variable per
    # loop (the per-iteration semantics start at go1.22). The module's packages are therefore compiled with
    # -lang=go1.21: the newest version that still has the loop semantics of the real build (and has generics for rapid)
    cmd.append("-gcflags=github.com/bokysan/socketace/v2/...=-lang=" + SOCKETACE_LANG)
    if spec.get("race"):
        cmd.append("-race")
    if fuzz:
        cmd.append("-fuzz=" + fuzz)
    cmd.append(target)
    t0 = time.time()
    p = subprocess.run(cmd, cwd=REPO, env=goenv(), stdout=subprocess.PIPE, stderr=subprocess.STDOUT, text=True)
    if p.returncode != 0 or not os.path.exists(out):
        log("BUILD FAILED for %s (exit %d):\n%s" % (cid, p.returncode, p.stdout[-6000:]))
        return None
    log("built %s in %.1fs" % (os.path.basename(out), time.time() - t0))
    return out


def run_procs(jobs, timeout):
    """jobs: list of dict(cmd, cwd, env, log). Runs all concurrently. Returns list of (rc, timed_out)."""
    procs = []
    for j in jobs:
        os.makedirs(j["cwd"], exist_ok=True)
        lf = open(j["log"], "w")
        pre = None
        if j.get("ulimit_v_kb"):
            kb = j["ulimit_v_kb"]

            def pre(kb=kb):
                import resource
                resource.setrlimit(resource.RLIMIT_AS, (kb * 1024, kb * 1024))
                os.setsid()
        else:
            pre = os.setsid
        p = subprocess.Popen(j["cmd"], cwd=j["cwd"], env=j["env"], stdout=lf, stderr=subprocess.STDOUT, preexec_fn=pre)
        procs.append((p, lf))
    deadline = time.time() + timeout
    res = []
    for p, lf in procs:
        to = False
        try:
            p.wait(timeout=max(1, deadline - time.time()))
        except subprocess.TimeoutExpired:
            to = True
            try:
                os.killpg(p.pid, signal.SIGKILL)
            except ProcessLookupError:
                pass
            p.wait()
        lf.close()
        res.append((p.returncode, to))
    return res


def merge_stats(paths):
    m = dict(evaluations=0, nontrivial=set(), labels={}, samples=[], known={}, known_sample={}, violations=[],
             exhaustive={}, extra={}, inconclusive=0, missing=0)
    for p in paths:
        if not os.path.exists(p):
            m["missing"] += 1
            continue
        try:
            s = json.load(open(p))
        except Exception:
            m["missing"] += 1
            continue
        m["evaluations"] += s.get("evaluations", 0)
        m["nontrivial"].update(s.get("nontrivial") or [])
        for k, v in (s.get("labels") or {}).items():
            m["labels"][k] = m["labels"].get(k, 0) + v
        for x in (s.get("samples") or []):
            if len(m["samples"]) < 16:
                m["samples"].append(x)
        for k, v in (s.get("known") or {}).items():
            m["known"][k] = m["known"].get(k, 0) + v
        for k, v in (s.get("known_sample") or {}).items():
            m["known_sample"].setdefault(k, v)
        m["violations"].extend(s.get("violations") or [])
        for k, v in (s.get("exhaustive") or {}).items():
            m["exhaustive"][k] = m["exhaustive"].get(k, True) and v
        for k, v in (s.get("extra") or {}).items():
            if isinstance(v, (int, float)) and isinstance(m["extra"].get(k), (int, float)):
                m["extra"][k] += v
            else:
                m["extra"].setdefault(k, v)
        m["inconclusive"] += s.get("inconclusive", 0)
    return m


def load_known(cid):
    try:
        doc = json.load(open(os.path.join(VERIF, "known_findings.json")))
    except Exception:
        return []
    return [f for f in doc.get("findings", []) if f.get("property") == cid]


def write_evidence(cid, spec, tier, seed, stats, wall, nviol, notes):
    cov = {
        "evaluations": stats["evaluations"],
        "distinct_nontrivial": len(stats["nontrivial"]),
        "rule": spec["rule"],
        "samples": stats["samples"] or [],
        "labels": dict(sorted(stats["labels"].items())),
        "inconclusive_cases": stats["inconclusive"],
        "known_findings_reobserved": stats["known"],
    }
    if stats["exhaustive"]:
        cov["exhaustive_subspaces"] = stats["exhaustive"]
        if spec.get("exhaustive_all") and all(stats["exhaustive"].values()):
            cov["exhaustive"] = True
    if stats["extra"]:
        cov["extra"] = stats["extra"]
    if notes:
        cov["notes"] = notes
    ev = {
        "property_id": cid,
        "tier": tier,
        "seed": seed,
        "level": spec["level"],
        "coverage": cov,
        "assumptions": spec.get("assumptions", []),
        "wall_s": round(wall, 2),
        "violations": nviol,
    }
    os.makedirs(os.path.join(VERIF, "evidence"), exist_ok=True)
    path = os.path.join(VERIF, "evidence", cid + ".json")
    tmp = path + ".tmp"
    json.dump(ev, open(tmp, "w"), indent=1, default=str)
    os.replace(tmp, path)


def classify_output(text):
    """returns one of: pass, fail, timeout, crash, other"""
    if "panic: test timed out" in text:
        return "timeout"
    if "panic: vlib:" in text:
        # the harness itself gave up (no free port, fixture start failed): says nothing about the property
        return "harness"
    if re.search(r"(?m)^--- FAIL", text) or re.search(r"(?m)^FAIL\s*$", text):
        return "fail"
    if "fatal error: runtime: out of memory" in text or "cannot allocate memory" in text:
        return "oom"
    if re.search(r"(?m)^(panic:|fatal error:)", text):
        return "crash"
    return "other"


def main():
    args = sys.argv[1:]
    if not args:
        log(__doc__)
        return 2
    cid = args[0]
    tier = os.environ.get("VERIF_TIER", "quick")
    replay = None
    i = 1
    while i < len(args):
        if args[i] == "--tier":
            tier = args[i + 1]
            i += 2
        elif args[i] == "--replay":
            replay = os.path.abspath(args[i + 1])
            i += 2
        else:
            i += 1
    if tier not in ("quick", "thorough"):
        tier = "quick"
    if cid not in CHECKS:
        log("unknown check", cid)
        return 2
    spec = CHECKS[cid]
    tspec = spec[tier] if tier in spec else spec["quick"]
    seed = effective_seed()
    t0 = time.time()

    workdir = os.path.join(VERIF, "work", cid)
    os.makedirs(workdir, exist_ok=True)
    for d in glob.glob(os.path.join(workdir, "run-*")):
        shutil.rmtree(d, ignore_errors=True)

    binary = build(cid, spec, workdir)
    if binary is None:
        return 2

    # optional second unit of the same check (e.g. an in-package part next to a black-box package): own binary, own job
    also = spec.get("also")
    also_binary = None
    if also:
        also_dir = os.path.join(workdir, "also")
        os.makedirs(also_dir, exist_ok=True)
        also_binary = build(cid + "-also", also, also_dir)
        if also_binary is None:
            return 2

    known_file = os.path.join(VERIF, "known_findings.json")
    base_env = dict(os.environ)
    base_env.update({
        "VERIF_TIER": tier,
        "VERIF_KNOWN": known_file,
        "VERIF_SEED_EFFECTIVE": str(seed),
        "VERIF_DIR": VERIF,
        "VERIF_REPO": REPO,
    })
    base_env.pop("GOFLAGS", None)

    shards = 1 if replay else int(tspec.get("shards", 1))
    jobs = []
    for k in range(shards):
        rdir = os.path.join(workdir, "run-%d" % k)
        env = dict(base_env)
        env["VERIF_STATS"] = os.path.join(rdir, "stats.json")
        env["VERIF_SHARD"] = str(k)
        env["VERIF_SHARDS"] = str(shards)
        env["VERIF_RUNDIR"] = rdir
        if "gomaxprocs_list" in tspec:
            gl = tspec["gomaxprocs_list"]
            env["GOMAXPROCS"] = str(gl[k % len(gl)])
        rseed = (seed * 64 + k) % (1 << 63) or 1
        cmd = [binary, "-test.v", "-test.timeout=%ds" % tspec.get("timeout", 600)]
        if replay and replay.endswith(".fail"):
            tname = os.path.basename(os.path.dirname(replay))
            cmd += ["-test.run=^%s$" % tname, "-rapid.failfile=" + replay]
        elif replay:
            env["VERIF_REPLAY"] = replay
            cmd += ["-test.run=" + spec.get("replay_run", "^TestReplay$")]
        else:
            cmd += ["-test.run=" + tspec.get("run", ".")]
            cmd += ["-rapid.seed=%d" % rseed]
            if "checks" in tspec:
                cmd += ["-rapid.checks=%d" % tspec["checks"]]
            if "steps" in tspec:
                cmd += ["-rapid.steps=%d" % tspec["steps"]]
            cmd += ["-rapid.shrinktime=%s" % tspec.get("shrinktime", "20s")]
        job = dict(cmd=cmd, cwd=rdir, env=env, log=os.path.join(rdir, "output.log"))
        if spec.get("ulimit_v_kb"):
            job["ulimit_v_kb"] = spec["ulimit_v_kb"]
        jobs.append(job)

    if also_binary and not replay:
        atspec = also.get(tier, also.get("quick", {}))
        rdir = os.path.join(workdir, "run-also")
        env = dict(base_env)
        env.update({"VERIF_STATS": os.path.join(rdir, "stats.json"), "VERIF_SHARD": "0", "VERIF_SHARDS": "1", "VERIF_RUNDIR": rdir})
        cmd = [also_binary, "-test.v", "-test.timeout=%ds" % atspec.get("timeout", 600), "-test.run=" + atspec.get("run", "."),
               "-rapid.seed=%d" % ((seed * 64 + 63) % (1 << 63) or 1), "-rapid.shrinktime=%s" % atspec.get("shrinktime", "20s")]
        if "checks" in atspec:
            cmd += ["-rapid.checks=%d" % atspec["checks"]]
        jobs.append(dict(cmd=cmd, cwd=rdir, env=env, log=os.path.join(rdir, "output.log")))
    elif also_binary and replay and replay.endswith(".fail") and os.path.basename(os.path.dirname(replay)) in also.get("tests", []):
        jobs[0]["cmd"][0] = also_binary

    results = run_procs(jobs, max(tspec.get("timeout", 600), (also or {}).get(tier, {}).get("timeout", 0)) + 30)

    # optional native fuzz campaigns (thorough only); saved crashers are the reproducible unit
    fuzz_notes = []
    fuzz_viol = []
    if not replay and tier == "thorough":
        for fz in spec.get("fuzz", []):
            fb = build(cid, spec, workdir, fuzz=fz["name"])
            if fb is None:
                fuzz_notes.append("fuzz build failed: " + fz["name"])
                continue
            fdir = os.path.join(workdir, "run-fuzz-" + fz["name"])
            shutil.rmtree(fdir, ignore_errors=True)
            os.makedirs(fdir)
            env = dict(base_env)
            env["VERIF_STATS"] = os.path.join(fdir, "stats.json")
            cmd = [fb, "-test.run=^$", "-test.fuzz=^%s$" % fz["name"], "-test.fuzztime=%s" % os.environ.get("VERIF_FUZZTIME", fz.get("time", "60s")),
                   "-test.fuzzcachedir=" + os.path.join(fdir, "cache"), "-test.timeout=0"]
            r = run_procs([dict(cmd=cmd, cwd=fdir, env=env, log=os.path.join(fdir, "output.log"))], 3600)
            out = open(os.path.join(fdir, "output.log"), errors="replace").read()
            crashers = glob.glob(os.path.join(fdir, "testdata", "fuzz", "*", "*"))
            m = re.findall(r"execs: (\d+)", out)
            fuzz_notes.append("%s: %s execs, %d crashers" % (fz["name"], m[-1] if m else "?", len(crashers)))
            if crashers:
                fuzz_viol.extend(crashers)
            elif r[0][0] != 0:
                fuzz_notes.append("%s: fuzz process exit %s without crasher (ignored)" % (fz["name"], r[0][0]))

    stats = merge_stats([j["env"]["VERIF_STATS"] for j in jobs])
    wall = time.time() - t0

    verdicts = []
    for (rc, to), j in zip(results, jobs):
        text = open(j["log"], errors="replace").read()
        if rc == 0:
            verdicts.append(("pass", j))
        elif to:
            verdicts.append(("timeout", j))
        else:
            verdicts.append((classify_output(text), j))

    if spec.get("death_is_violation"):
        # the property is about crashes / unbounded allocation: a dead process with a journalled input is a violation
        verdicts = [("crash" if v in ("oom", "other") and os.path.exists(os.path.join(j["cwd"], "last_input.json")) else v, j)
                    for v, j in verdicts]
    violation_jobs = [j for v, j in verdicts if v in ("fail", "crash")]
    nviol = len(violation_jobs) + len(fuzz_viol)
    notes = list(fuzz_notes)
    if stats["missing"]:
        notes.append("%d shard(s) left no stats file" % stats["missing"])

    if not replay and REPO == "/repo":
        write_evidence(cid, spec, tier, seed, stats, wall, nviol, notes)

    # known findings re-observed
    listed = {f["signature"]: f for f in load_known(cid) if f.get("status") == "open"}
    for sig, cnt in sorted(stats["known"].items()):
        f = listed.get(sig, {})
        log("KNOWN-FINDING: property=%s %s -- %s (re-observed %d times this run)" % (cid, sig, f.get("description", ""), cnt))

    log("check %s tier=%s seed=%d: evaluations=%d distinct_nontrivial=%d wall=%.1fs %s" % (
        cid, tier, seed, stats["evaluations"], len(stats["nontrivial"]), wall, "; ".join(notes)))

    if nviol:
        # counter-examples found on a scratch copy (VERIF_REPO set) are kept apart from those of /repo itself
        rdir = os.path.join(VERIF, "replays", cid) if REPO == "/repo" else os.path.join(VERIF, "work", "replays-scratch", cid)
        os.makedirs(rdir, exist_ok=True)
        replay_path = None
        for j in violation_jobs:
            fails = glob.glob(os.path.join(j["cwd"], "testdata", "rapid", "*", "*.fail"))
            for f in fails:
                tdir = os.path.join(rdir, os.path.basename(os.path.dirname(f)))
                os.makedirs(tdir, exist_ok=True)
                dst = os.path.join(tdir, "seed%d-%s" % (seed, os.path.basename(f)))
                shutil.copyfile(f, dst)
                replay_path = replay_path or dst
            li = os.path.join(j["cwd"], "last_input.json")
            if not fails and os.path.exists(li):
                dst = os.path.join(rdir, "seed%d-%s-last_input.json" % (seed, os.path.basename(j["cwd"])))
                shutil.copyfile(li, dst)
                replay_path = replay_path or dst
            dst = os.path.join(rdir, "seed%d-%s-output.log" % (seed, os.path.basename(j["cwd"])))
            shutil.copyfile(j["log"], dst)
            if not fails:
                replay_path = replay_path or dst
            text = open(j["log"], errors="replace").read()
            tail = "\n".join(text.splitlines()[-60:])
            log("---- failing output (tail) ----\n" + tail)
        if stats["violations"]:
            dst = os.path.join(rdir, "seed%d-cases.json" % seed)
            json.dump(stats["violations"], open(dst, "w"), indent=1, default=str)
            if replay_path is None or replay_path.endswith("-output.log"):
                replay_path = dst
        for c in fuzz_viol:
            tdir = os.path.join(rdir, "fuzz")
            os.makedirs(tdir, exist_ok=True)
            dst = os.path.join(tdir, os.path.basename(os.path.dirname(c)) + "-" + os.path.basename(c))
            shutil.copyfile(c, dst)
            replay_path = replay_path or dst
        log("VIOLATION property=%s replay=%s" % (cid, replay_path))
        return 1

    bad = [v for v, _ in verdicts if v != "pass"]
    if bad:
        for v, j in verdicts:
            if v != "pass":
                text = open(j["log"], errors="replace").read()
                log("---- inconclusive (%s) output tail: %s ----\n%s" % (v, j["log"], "\n".join(text.splitlines()[-40:])))
        log("INCONCLUSIVE property=%s reasons=%s" % (cid, ",".join(sorted(set(bad)))))
        return 2
    if not replay and (stats["evaluations"] < 1 or len(stats["nontrivial"]) < 2):
        log("INCONCLUSIVE property=%s: nothing non-trivial explored" % cid)
        return 2
    return 0


if __name__ == "__main__":
    sys.exit(main())
