"""Table of checks: how each property's harness is built and run. Read by check.py and gen_manifest.py."""

CHECKS = {
    "C08": dict(
        pkg="c08",
        level="exploration",
        technique="property-based testing (rapid) + exhaustive enumeration of short inputs, round-trip/alphabet/length oracle",
        rule=("cases = (codec, byte string): every string of length 0..2 (exhaustive), every length 0..N with structured "
              "content (zeros, ones, counter, single bit, repeated byte, alternating), and rapid-generated strings "
              "(short, long, few-symbol runs, lengths around multiples of 3/4/5/7/13/15). Oracle: Decode(Encode(x))==x "
              "without error; for non-Raw codecs no output byte in {'.','\\\\',' ',<0x20,0x7f} and "
              "len(out) <= ceil(Ratio*len(x))+4; input not mutated; no panic. non-trivial = len(x)>=1; distinct = "
              "distinct (codec, bytes) pair"),
        assumptions=["Raw is judged for losslessness only (property text)",
                     "slack constant 4 = what the 10-byte reserve of getUpstreamMtu leaves after the 5-byte packet header"],
        quick=dict(run=".", checks=3000, timeout=300),
        thorough=dict(run=".", checks=40000, timeout=1500, shards=8),
        fuzz=[dict(name="FuzzCodecs", time="90s")],
        design_ref="DESIGN.md 2/C08",
        level_text=("Generated-input search with a round-trip oracle; the sub-space of all inputs of length 0-2 is enumerated "
                    "completely for each codec, longer inputs are sampled (structured + random). A green run means no "
                    "generated input broke losslessness, the DNS-safe alphabet or the length bound."),
        level_note="Trusts Go's bytes.Equal and the harness's own alphabet/length predicates; absence beyond the explored inputs is not shown.",
    ),
}

# commits in /repo that add build-tag guarded hooks (none: the overlay technique needs no source hooks)
REPO_HOOK_COMMITS = []

_ALL = ["C%02d" % i for i in range(1, 20)]
NOT_APPLICABLE = [
    {"property_id": p, "reason": "check not built yet (work in progress); will be claimed once its harness exists and is quiet on the unchanged tree"}
    for p in _ALL if p not in CHECKS
]
