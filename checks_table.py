"""Table of checks: how each property's harness is built and run. Read by check.py and gen_manifest.py."""

CHECKS = {
    "C03": dict(
        pkg="c03",
        level="exploration",
        technique="property-based testing (rapid) + exhaustive enumeration of small channel tables against a table-intersect-allow-list reference model, observed at recording targets",
        rule=("case = (server kind tcp/http with 1-3 websocket paths/udp/stdio/(thorough) dns, channel table of 1-4 names from a "
              "confusable set {a,A,ab,a/b,b,ba,echo,Echo,echo2,''}, per-endpoint allow-list (empty, subset, or naming an unknown "
              "channel), 2-6 requested names incl. case variants/prefixes/extensions/unknown/'ls'). One banner-echo target per "
              "channel. Oracle: name in table-intersect-allow-list of the endpoint used => banner of exactly that target, echo "
              "works, its accept counter +1, all others unchanged; otherwise => refusal (EOF before any payload) and no accept "
              "on any target; a start-up error is accepted only for an invalid allow-list. non-trivial = a request for a "
              "configured-but-unlisted name or a name confusable with a configured one; the socket-kind sub-space of tables "
              "with 1 (quick) / 1-2 (thorough) names is enumerated completely"),
        assumptions=["channel names are unique within a table (documented)", "names containing a newline are not generated (cannot be a multistream token)"],
        quick=dict(run=".", checks=120, timeout=900),
        thorough=dict(run=".", checks=600, timeout=3000, shards=8),
        design_ref="DESIGN.md 2/C03",
        level_text=("Generated configurations and requests on real pairs compared with a reference model of exposure; small socket-server "
                    "tables are enumerated exhaustively. A green run means every request was routed to exactly its target or refused "
                    "without any outbound connection, as the model says."),
        level_note="Trusts the banner/accept counters of harness targets; sampling beyond the enumerated sub-space.",
    ),
    "C04": dict(
        pkg="c04",
        level="fault_enumeration",
        technique="enumerated configuration matrix with a recording observer on the carrier + property-based testing (rapid) of scripted misbehaving peers at each handshake step; marker-on-the-wire oracle",
        rule=("five generated experiments. (1) real client x real server with a recording observer on the carrier (TCP/UDP relay, "
              "pipe tap): the matrix (carrier tcp/tcp+tls/http/https/stdio/stdio+tls/udp with and without shared secret/dns) x server certificate x require-"
              "security x insecure flag is enumerated; a 32-byte high-entropy marker inside generated padding is echoed through; "
              "oracle: never 'reported secure and marker on the wire', never marker on the wire / data carried when security is "
              "required, StartTLS offered => session is tls or absent, session exists iff the model says so; unprotected sessions "
              "must show the marker (detector sanity). (1b) client and server handshake objects over a recorded loop-back "
              "socket (rapid): both ends' reports agree, tls => marker absent. (2) real client x scripted server (rapid): "
              "announce status, capability spelling/omission/duplication, upgrade status, then TLS / plaintext / silence / "
              "close; oracle: with require-security Connect succeeds only after a genuine TLS handshake and the server never "
              "reads the marker in clear; StartTLS offered => TLS or no session. (3) TLS endpoints (tcp+tls, https, stdio+tls) x "
              "scripted plaintext clients (perfect plaintext handshake, websocket upgrade, truncations, random bytes): no "
              "success status in clear, no target connection. (4) a +tls/https upstream object connected 1-3 times (earlier "
              "attempts against an honest TLS server or a dead port, enumerated), the last time against a hostile peer that speaks "
              "a perfect plaintext handshake: it must be greeted with a TLS ClientHello and no session may result. non-trivial = the ends could disagree (StartTLS offered, security "
              "required, or a misbehaving step)"),
        assumptions=["the server's own secure flag is only observable in experiment 1b (no hook in the full server path)",
                     "DNS payloads are encoded, so the literal-marker detector says nothing there; flags and model still apply"],
        quick=dict(run=".", checks=150, timeout=900),
        thorough=dict(run=".", checks=1500, timeout=3000, shards=6),
        design_ref="DESIGN.md 2/C04",
        level_text=("Configuration matrix enumerated with an on-the-wire observer, plus generated fault scripts at every handshake "
                    "step for both roles. A green run means the marker never crossed the carrier in clear on a session reported "
                    "or required secure, StartTLS offers never ended in a plaintext session, and TLS endpoints never completed "
                    "a plaintext session."),
        level_note="Trusts crypto/tls; the detector is validated on every run by requiring the marker to be visible on unprotected sessions.",
    ),
    "C05": dict(
        pkg="c05",
        level="exploration",
        exhaustive_all=True,
        technique="exhaustive enumeration of the finite authentication configuration matrix on real client/server pairs against a truth-table oracle written from the property",
        rule=("case = (carrier tcp+tls / https / StartTLS over tcp, http, udp (and dns in thorough; 3 dns cases in quick), server "
              "certificate {trusted with SAN == upstream host only, trusted for another host, signed by a foreign CA, expired}, "
              "client insecure flag, client certificate {none, own CA, foreign CA}, require-client-certificate, upstream host "
              "spelling localhost/127.0.0.1) - enumerated completely - plus all pairs of UDP shared secrets from "
              "{'',alpha,beta,alphaX,ALPHA}. Client requires security and has the CA configured. Oracle: echo through the pair "
              "works <=> (insecure or certificate is the matching trusted unexpired one) and (not require or client certificate "
              "from the server's CA); when refused, 0 bytes at the target; equal UDP secrets <=> session. A rapid test adds "
              "sequences: ONE client configuration with a list of 2-4 upstreams (tcp+tls, StartTLS, https, a failing "
              "stdin+tls attempt; host spelled localhost or 127.0.0.1; certificate matching, valid for the other spelling "
              "only, untrusted or expired): the connection must be served by the first entry the truth table admits when "
              "judged on its own, whatever was attempted before it. non-trivial = "
              "insecure=false or require=true (a certificate decides); distinct = distinct tuple"),
        assumptions=["socketace.HandshakeTimeout is lowered to 8 s by the harness (package variable) so refused UDP handshakes end quickly",
                     "'established' is observed as a 200-byte echo within 15 s (60 s DNS)"],
        quick=dict(run=".", checks=60, timeout=900),
        thorough=dict(run=".", checks=600, timeout=3000, shards=8),
        design_ref="DESIGN.md 2/C05",
        level_text=("The configuration space is finite and enumerated completely (exhaustive: true); each combination is run on a real "
                    "pair and compared with the truth table. A green run means admission equals the table for every combination."),
        level_note="Trusts crypto/tls and crypto/x509; certificates are generated by the harness.",
    ),
    "C06": dict(
        pkg="c06",
        level="exploration",
        technique="grammar-based property testing (rapid) of both handshake roles over an in-memory carrier with generated segmentation: reference-model + metamorphic (segmentation invariance) oracles; native fuzzing in thorough",
        rule=("case = (role, byte script, two segmentations). Scripts come from a grammar: VALID by construction (method, version "
              "list with the supported version among others in any position/spacing, header-name case variants, extra headers, "
              "CRLF or LF, optional pipelined payload), INVALID by exactly one named mutation (wrong/re-cased method, no common "
              "version, missing version header, upgrade method, Connection missing/wrong, Upgrade token wrong/missing/other "
              "version, truncation at a drawn offset, header without colon, request/status line with too few spaces, non-200/101 "
              "statuses, StartTLS requested/advertised without a TLS hello following), GARBAGE (random bytes, byte-level "
              "mutations of valid scripts, 4 KiB-1 MiB lines, repeated requests). Each script is delivered with two independent "
              "segmentations (coalesced, 1-byte trickle, random cuts), one segment per Read. Oracle: (1) reference model: VALID "
              "=> session, server statuses 200,101, pipelined bytes readable unmodified; INVALID => no session and an error "
              "status from {400,405,406,409,503} or a close; (2) identical outcome (established, statuses, leftover bytes) under "
              "both segmentations for every class; (3) no panic, termination once input is exhausted. non-trivial = INVALID or "
              "GARBAGE script, or VALID with >=2 segments or pipelined bytes"),
        assumptions=["GARBAGE scripts are judged by segmentation invariance, no-crash and termination only (no expectation about exotic-but-legal MIME syntax)"],
        quick=dict(run="^Test", checks=4000, timeout=600),
        thorough=dict(run="^Test", checks=60000, timeout=3000, shards=8),
        fuzz=[dict(name="FuzzServerHandshake", time="120s"), dict(name="FuzzClientHandshake", time="120s")],
        design_ref="DESIGN.md 2/C06",
        level_text=("Grammar-generated handshake scripts for both roles against the real handshake code through an in-memory carrier "
                    "that controls read segmentation. A green run means the model agreed on every VALID/INVALID script, the outcome "
                    "never depended on segmentation, and nothing crashed or hung."),
        level_note="The reference model is ~40 lines written from the README/property; byte-level fuzzing only checks invariance/no-crash.",
    ),
    "C07": dict(
        inpkg="internal/streams/dns", src=["inpkg_dnssim", "inpkg_c07"],
        level="fault_enumeration",
        technique="model-based stateful property testing (rapid) of a real DNS-tunnel client/server pair over a simulated lossy path with per-exchange generated fates; prefix/exactly-once history invariant",
        rule=("case = generated history on a real ServerDnsListener + real ClientDnsConnection joined by a simulated path that runs "
              "every message through real Pack/Unpack: actions clientWrite(n), serverWrite(n), poll (the body of the real poll "
              "loop), read; every exchange gets a fate {delivered, query lost, answer lost, query duplicated, old query replayed "
              "(age <= 300)} drawn at that moment (0-40% faults; half of the histories forbid two lost exchanges in a row); "
              "fragment sizes 1..1200, write sizes <,=,>,>> fragment size, starting sequence numbers over the 16-bit range "
              "(biased to 65335..65535); loss-free tail. Losses are returned as the real communicator's time-out error value. "
              "Oracle: bytes read at each end are a prefix of what the peer's writes were given; after the tail they equal the "
              "accepted prefixes (n of each Write); Write with err==nil delivered fully; isolated losses never fail a Write; "
              "every Write terminates. A separate run pushes >66000 packets per direction (fragment 1-2) with sparse isolated "
              "faults (sequence wrap). Layer B runs the real Handshake() with its background poll goroutine and applies a "
              "pre-drawn fate list (20-400 exchanges, consumed in exchange order) while 1-9000 bytes move both ways: isolated "
              "losses must be absorbed completely, burst losses may fail a write but never corrupt or hang. non-trivial = history with a non-delivered fate and a write spanning > 1 fragment"),
        assumptions=["the client's poll goroutine is replaced by harness-driven polls (same code path: SendAndReceive(out.NextChunk()))",
                     "losses use the real time-out error shape of NetConnectionClientCommunicator"],
        quick=dict(run=".", checks=500, steps=60, timeout=900),
        thorough=dict(run=".", checks=5000, steps=120, timeout=3000, shards=8),
        design_ref="DESIGN.md 2/C07",
        level_text=("Generated fault histories against the real queues, serializers and command handlers. A green run means no generated "
                    "history produced a gap, repeat or reordering, lost an accepted byte, failed a Write on an isolated loss or "
                    "hung a Write - including across the 16-bit sequence wrap."),
        level_note="Single-threaded driving of the client (the background poller's timing is not explored here).",
    ),
    "C08": dict(
        pkg="c08",
        level="exploration",
        technique="property-based testing (rapid) + exhaustive enumeration of short inputs, round-trip/alphabet/length oracle",
        rule=("cases = (codec, byte string): every string of length 0..2 (exhaustive), every length 0..N with structured "
              "content (zeros, ones, counter, single bit, repeated byte, alternating), and rapid-generated strings "
              "(short, long, few-symbol runs, lengths around multiples of 3/4/5/7/13/15). Oracle: Decode(Encode(x))==x "
              "without error; for non-Raw codecs no output byte in {'.','\\\\',' ',<0x20,0x7f} and "
              "len(out) <= ceil(Ratio*len(x))+4; input not mutated; no panic. non-trivial = len(x)>=1; distinct = "
              "distinct (codec, bytes) pair"),
        assumptions=["Raw is judged for losslessness only (property text)",
                     "slack constant 4 = what the 10-byte reserve of getUpstreamMtu leaves after the 5-byte packet header"],
        quick=dict(run=".", checks=3000, timeout=300),
        thorough=dict(run=".", checks=40000, timeout=1500, shards=8),
        fuzz=[dict(name="FuzzCodecs", time="90s")],
        design_ref="DESIGN.md 2/C08",
        level_text=("Generated-input search with a round-trip oracle; the sub-space of all inputs of length 0-2 is enumerated "
                    "completely for each codec, longer inputs are sampled (structured + random). A green run means no "
                    "generated input broke losslessness, the DNS-safe alphabet or the length bound."),
        level_note="Trusts Go's bytes.Equal and the harness's own alphabet/length predicates; absence beyond the explored inputs is not shown.",
    ),
    "C01": dict(
        pkg="c01",
        level="exploration",
        technique="property-based testing (rapid) of end-to-end transfers through real client/server pairs, round-trip identity oracle",
        rule=("case = (carrier x security configuration, listener kind, payload up/down with boundary-biased lengths "
              "{0,1,2,4095..4097,16383..16385,32639..32641,32767..32769,65535..65537, uniform}, partition of each payload into "
              "writes, content class incl. all byte values / zeros / 0xFF / handshake look-alikes, duplex or sequential, micro-gaps). "
              "Oracle: bytes recorded by the target == bytes the application wrote and bytes the application read == bytes the "
              "target wrote. non-trivial = total length > 4096 or >= 2 writes in a direction; distinct = distinct case tuple"),
        assumptions=["client verification is switched off (insecure flag) in TLS configurations: authentication is C05's subject",
                     "a transfer that does not complete within 30 s (90 s over DNS) is judged as lost data"],
        quick=dict(run=".", checks=160, timeout=900),
        thorough=dict(run=".", checks=500, timeout=3000, shards=8),
        design_ref="DESIGN.md 2/C01",
        level_text=("Generated (carrier, payload, segmentation) cases pushed through a freshly started real client/server pair and "
                    "compared byte-for-byte at both observation points. A green run means no generated case lost, duplicated, "
                    "reordered or altered a byte on any carrier kind."),
        level_note="Trusts the harness target/app sockets; sampling only, no absence claim.",
    ),
    "C02": dict(
        pkg="c02",
        level="exploration",
        technique="model-based stateful property testing (rapid state machine) of k concurrent logical connections on one real session; reference model = independent FIFO pipes with PRF payloads",
        rule=("case = generated history on one fresh client/server pair with 2 channels/targets and up to 8 logical connections: "
              "open(channel), write(conn, side, n), burst (2-6 writes started concurrently), pause/resume of a reader, close by "
              "app or target; carriers tcp/stdio/http/udp (+tcp+tls, unix, https in thorough), StartTLS on a quarter. Payload bytes "
              "are a PRF of (connection, direction, offset). Invariant after every step: bytes received on every open connection "
              "are a prefix of what its own peer wrote (no cross-talk) and every non-paused reader has received everything "
              "within 10 s (re-confirmed once) although other connections are idle, paused (<=256 KiB un-read) or closing; "
              "new connections reach the right target. non-trivial = >=2 connections open simultaneously with data written on "
              "one while another is open; distinct = distinct history"),
        assumptions=["the Go scheduler is not controlled: interleavings come from generated order, concurrent bursts and (thorough) GOMAXPROCS 1/2/16",
                     "a stall is judged after 2 x 10 s without progress"],
        quick=dict(run=".", checks=60, steps=30, timeout=900),
        thorough=dict(run=".", checks=400, steps=50, timeout=3000, shards=6, gomaxprocs_list=[1, 2, 16, 4, 16, 2]),
        design_ref="DESIGN.md 2/C02",
        level_text=("Stateful generated search against a reference model of independent pipes on a real session. A green run means no "
                    "generated history showed bytes crossing between logical connections, a connection routed to the wrong target, "
                    "or a connection that stopped making progress because of others."),
        level_note="Schedules are sampled, not enumerated: a violation needing one specific preemption can be missed.",
    ),
    "C09": dict(
        inpkg="internal/streams/dns", src="inpkg_c09",
        level="exploration",
        technique="property-based testing (rapid) of every request type through the real serializers and real miekg/dns Pack/Unpack; round-trip + DNS validity oracle",
        rule=("case = (command version/set-options/packet/downstream-codec probe/upstream-codec probe/fragment-size probe, field "
              "values: user id 0-1295, seq/ack 0-65535, tri-state flags, every codec code, fragment sizes over the uint32 range "
              "(0xFFFFFFFF excluded: it encodes 'not set'), stock and generated <=59-byte probe patterns over the codec's alphabet, "
              "client version; upstream codec in {Base32,Base64,Base64u,Base85,Base91,Base128}; tunnel domain of 1-4 labels and "
              "3-120 characters in mixed case; query type; packet payload length 0..M where M is the fragment size the client's "
              "own getUpstreamMtu computes for (domain, codec), biased to M-8..M). A second test walks every payload length "
              "0..M for 5 domains x 6 codecs. Pipeline/oracle: client EncodeDnsRequestWithParams succeeds -> exactly one "
              "question, every wire label <= 63 octets, name <= 253 -> Msg.Pack -> Msg.Unpack -> ComposeRequest -> server "
              "DecodeDnsRequest -> same dynamic type and equal fields. non-trivial = payload >= M-8 or a probe pattern with "
              "characters that DNS presentation format escapes; distinct = distinct (command, codec, domain, fields)"),
        assumptions=["random cache-busting characters are produced by socketace itself and not compared", "the server is configured with the lower-cased domain"],
        quick=dict(run=".", checks=20000, timeout=600),
        thorough=dict(run=".", checks=250000, timeout=3000, shards=8),
        fuzz=[dict(name="FuzzRequestsSurviveTheWire", time="120s")],
        design_ref="DESIGN.md 2/C09",
        level_text=("Generated requests of every command through the real client serializer, real DNS wire packing and the real server "
                    "deserializer. A green run means every generated request within the client's own size budget was a valid DNS "
                    "question and was recognised with identical fields."),
        level_note="Trusts miekg/dns Pack/Unpack as the wire; in-package only to call getUpstreamMtu.",
    ),
    "C10": dict(
        inpkg="internal/streams/dns", src="inpkg_c10",
        level="exploration",
        technique="property-based testing (rapid) + payload-length walks of every response type through the real serializers, record wrappers and real miekg/dns Pack/Unpack; equal-or-reported oracle",
        rule=("case = (response type version/set-options/packet/error/downstream-codec probe/upstream-codec probe/fragment-size "
              "probe with every field and every member of BadErrors, record type NULL/PRIVATE/TXT/SRV/MX/CNAME/AAAA/A, downstream "
              "codec Base32/64/64u/85/91/128/Raw, tunnel domain (5 shapes), payload length 0..8192 biased to 0-4, 13-15, 56-58, "
              "234-256, multiples of 3/14/253 +-1). Pipeline: server EncodeDnsResponseWithParams -> Pack -> Unpack -> client "
              "DecodeDnsResponseWithParams. Oracle: (1) for every triple the result is the equal response or an error reported "
              "at encode/wrap/pack/decode - never a silently different response, never a panic; (2) for triples the client "
              "itself would select (its 48-byte downstream probe round-trips for that record type, codec and domain) every "
              "response round-trips equal unless the payload exceeds the capacity the wrap code states (A: 255 records x 3); "
              "(3) a fixed must-be-selectable table (NULL/PRIVATE x Raw,Base32; TXT/MX/CNAME x Base32/64/64u; SRV x Base32) "
              "holds. A walk covers every payload length 0..1300 (8192 thorough) for every selectable pair. non-trivial = "
              "payload > one record of the smallest type or within +-1 of a record limit"),
        assumptions=["'selectable' is defined operationally by the client's own probe over a transparent wire"],
        quick=dict(run=".", checks=6000, timeout=600),
        thorough=dict(run=".", checks=80000, timeout=3000, shards=8),
        fuzz=[dict(name="FuzzResponsesSurviveTheWire", time="120s")],
        design_ref="DESIGN.md 2/C10",
        level_text=("Generated responses of every type, record type and codec through the real wrapping code and real DNS wire packing. A "
                    "green run means every generated response came back equal or with a reported error, and equal whenever the "
                    "client's own probe says the combination works."),
        level_note="Trusts miekg/dns Pack/Unpack as the wire.",
    ),
    "C11": dict(
        inpkg="internal/streams/dns", src=["inpkg_dnssim", "inpkg_c11"],
        level="exploration",
        technique="property-based testing (rapid) of the real client Handshake() against a real server over a generated family of simulated DNS path behaviours; termination + success-implies-exact-transfer oracle",
        rule=("case = path behaviour: query-name case {transparent, lower, upper, random per query} x names with bytes >= 0x80 "
              "{transparent, SERVFAIL, mangled to '?'} x answered record types (all, a single type, or a drawn subset of the 8) x "
              "answer size limit {none, 512, 1232, 4096, drawn 300-8192; larger answers dropped} x EDNS0 stripped or not x tunnel "
              "domain (4 shapes); then 1-3 payload sizes 1..5000 bytes (random and all-byte-values content) both ways. The 255 "
              "record-type subsets are enumerated in thorough (11 in quick). The simulated path runs every message through real "
              "Pack/Unpack and never sleeps. Oracle: Handshake() returns (no panic, < 20000 queries, < 60 s); if it returns nil "
              "both codecs and fragment sizes are set and every payload arrives intact in both directions over the same path "
              "within 30 s; if it returns an error that is accepted. non-trivial = any non-transparent behaviour"),
        assumptions=["losses are modelled as the real communicator's time-out error; the path is deterministic per case (no random loss here: that is C07)"],
        quick=dict(run=".", checks=120, timeout=900, shrinktime="10s"),
        thorough=dict(run=".", checks=1200, timeout=3000, shards=8),
        design_ref="DESIGN.md 2/C11",
        level_text=("Generated path behaviours against the real negotiation code on both ends. A green run means the handshake always "
                    "terminated, and whenever it reported success the negotiated record type, codecs and fragment sizes carried "
                    "arbitrary data exactly in both directions over that same path."),
        level_note="The path family is a model of resolver behaviour written for the harness; real resolvers are not involved.",
    ),
    "C12": dict(
        inpkg="internal/streams/dns", src=["inpkg_dnssim", "inpkg_c12"],
        level="exploration",
        ulimit_v_kb=6 * 1024 * 1024,
        death_is_violation=True,
        technique="grammar-based property testing (rapid) of the DNS server's message handler and the client's answer decoder with no-crash / bounded-work / session-undisturbed oracles; native fuzzing in thorough",
        rule=("server cases = sequences of 1-12 one-question messages from a grammar (ordinary look-ups mail/www/ldap/_dmarc, bare "
              "domain and root, every command letter in both cases with 0-5 following characters, command+cache+user id "
              "(valid, live session's, >=1296-looking, non-base36)+alphabet soup, multi-label soup, and syntactically valid "
              "requests with hostile field values (fragment sizes 0,1,2^31,2^32-1, closed flag, every codec) optionally "
              "truncated or corrupted; tunnel domain, case variants, sibling and parent domains, root; query types biased to the "
              "tunnel's plus arbitrary 0-65535; classes), all passed through Pack/Unpack first and sent from a foreign address "
              "while a real session from another address is established. Oracle: the real message handler does not panic, "
              "returns within 1 s and < 16 MiB allocated, leaves the session's sequence numbers untouched, and the session "
              "afterwards completes an exact 500-byte transfer both ways. A further test sets hostile fragment sizes on the "
              "session's own options and requires a following 3000-byte server write to finish with bounded allocation. Client "
              "cases = answers with 0-4 records of mixed types (records shorter than their order tag, foreign owner names, "
              "error rcodes) x every codec through DecodeDnsResponseWithParams and SendAndReceive: error or value, never a "
              "panic. Every case is non-trivial (hostile input); distinct = distinct message description"),
        assumptions=["the binary runs under ulimit -v 6 GiB; a process death is reported with the journalled last input as replay"],
        quick=dict(run="^Test", checks=1500, timeout=600),
        thorough=dict(run="^Test", checks=30000, timeout=3000, shards=8),
        fuzz=[dict(name="FuzzServerMessage", time="120s"), dict(name="FuzzClientAnswer", time="120s")],
        design_ref="DESIGN.md 2/C12",
        level_text=("Grammar-generated hostile queries against the real server handler with an established session as witness, and "
                    "generated malformed answers against the real client decoder. A green run means nothing crashed, work per "
                    "message stayed bounded and the witness session kept transferring exactly."),
        level_note="The handler is called directly (in-package) the way the miekg/dns mux would call it.",
    ),
    "C13": dict(
        inpkg="internal/streams/dns", src=["inpkg_dnssim", "inpkg_c13"],
        level="exploration",
        technique="model-based stateful property testing (rapid state machine) of k concurrent DNS-tunnel sessions with spoofed and stale-identifier messages on one real server; wall-clock expiry scenarios generated up-front",
        rule=("case = generated history on one real ServerDnsListener with an address pool of three: open(addr) (real client, real "
              "version handshake; two clients may share an address), transfer(i,n) with session-tagged PRF payloads both ways, "
              "closeByClient, closeByServer, closeAgain (server side closes an already closed session once more), useClosedId "
              "(any command with a closed session's identifier from its old address), spoof (any of packet with exactly the "
              "expected sequence number / poll / set-options incl. close and codec change / codec probe / fragment probe, carrying "
              "a live session's identifier from a foreign address). Invariants: live identifiers pairwise distinct; every live "
              "session keeps transferring exactly its own data after every close/spoof; spoofed and closed-identifier messages are "
              "answered with an error, return no data packet and leave the victim's sequence numbers, codecs, fragment size and "
              "open state untouched. Expiry: N listeners (8 quick / 60 thorough) with generated open/close/reopen plans and "
              "lowered exported time-outs all wait for the real one-minute sweeps (1 quick / 2 thorough) while successors stay "
              "active; successors must still transfer exactly. non-trivial = >=2 sessions and at least one spoof or close"),
        assumptions=["the expiry sweep period is a hard-coded one-minute sleep: the quick tier waits for one real sweep (about 65 s)",
                     "a request with a closed identifier from the same address as a live session that reuses the slot is by design that session's own"],
        quick=dict(run=".", checks=250, steps=40, timeout=900),
        thorough=dict(run=".", checks=2500, steps=80, timeout=3000, shards=8),
        design_ref="DESIGN.md 2/C13",
        level_text=("Generated multi-session histories with hostile messages against the real server-side session table, plus generated "
                    "slot-reuse plans across real expiry sweeps. A green run means no history leaked or altered another session's "
                    "data, accepted a spoofed or stale identifier, or terminated a live session because an earlier one closed or expired."),
        level_note="In-package access is used to read the victim's expected sequence numbers (to craft the most dangerous spoof) and to lower exported time-outs.",
    ),
    "C14": dict(
        pkg="c14",
        level="fault_enumeration",
        technique="property-based testing (rapid) of connection histories and session-ending faults with a differential resource oracle (goroutines, descriptors, idle CPU)",
        rule=("case = (carrier tcp/tcp+tls/http/stdio, StartTLS?, closer app/target/both, overlap 1/2/5, payload size, session ending "
              "none/client-shutdown/server-shutdown/carrier cut RST/carrier cut FIN/garbage injected after the handshake/"
              "(thorough) silence until the multiplexer keep-alive fires). After a warm-up the idle footprint is measured; 20 and "
              "then 100 more logical connections are run; oracle: goroutines and descriptors after 120 connections exceed neither "
              "the level after 20 nor the idle level by more than 3 (6), idle CPU <= 25% of a core, after the session ending the "
              "footprint returns to the idle level and CPU stays idle, after shutdown to the pre-pair level. non-trivial = target "
              "closes first or an abnormal/explicit session ending; distinct = distinct history tuple"),
        assumptions=["whole-process goroutine/descriptor counts are used; harness goroutines are quiescent at measuring points",
                     "stdio endpoints are not judged after shutdown (they live as long as the process' standard streams)"],
        also=dict(pkg="c14b", tests=["TestSilentCarrier"], quick=dict(run=".", timeout=300), thorough=dict(run=".", timeout=300)),
        quick=dict(run=".", checks=14, timeout=1200),
        thorough=dict(run=".", checks=60, timeout=3400, shards=4),
        design_ref="DESIGN.md 2/C14",
        level_text=("Generated connection histories and injected session-ending faults on a real pair, judged by differential resource "
                    "growth. A green run means no generated history left goroutines/descriptors growing with the number of past "
                    "connections or a dead session being serviced in a busy loop."),
        level_note="Quiescence is observed with bounded waits (<=10 s); counts are process-wide.",
    ),
    "C15": dict(
        pkg="c15",
        level="fault_enumeration",
        technique="property-based testing (rapid) over scripted stalling/misbehaving peers against real server endpoints; oracle: well-behaved clients complete handshake + echo within a bound",
        rule=("case = (endpoint kind tcp/tcp+tls/unix/http/https/udp/dns, server offers StartTLS?, stall point after-connect / inside "
              "the first request (drawn cut) / between the two requests / inside a TLS ClientHello (drawn cut) / after the upgrade "
              "/ garbage / one byte every 400 ms, 1-5 stalled peers, 1-3 well-behaved clients arriving while they stall). Oracle: every "
              "well-behaved client (the pair's own and freshly started extra clients) completes handshake and a 300-byte echo "
              "within 10 s (40 s DNS) while the stalled peers stay connected; a failure is re-confirmed once with a fresh client "
              "(otherwise counted inconclusive). Every case is non-trivial (at least one stalled peer); distinct = distinct tuple"),
        assumptions=["time bound 10 s (DNS 40 s) is >100x the normal latency on this machine"],
        also=dict(inpkg="internal/streams/dns", src=["inpkg_dnssim", "inpkg_c15"], tests=["TestSilentSessionsAcrossTheSweep"],
                  quick=dict(run=".", timeout=400), thorough=dict(run=".", timeout=600)),
        quick=dict(run=".", checks=40, timeout=600, shrinktime="5s"),
        thorough=dict(run=".", checks=150, timeout=3400, shards=6),
        design_ref="DESIGN.md 2/C15",
        level_text=("Generated stall/misbehaviour scripts at each handshake step on every endpoint kind. A green run means no generated "
                    "stalled peer delayed a well-behaved client beyond the bound."),
        level_note="Bounded-time observation; stall points are sampled per kind, peers are scripted in the harness.",
    ),
    "C16": dict(
        pkg="c16",
        level="fault_enumeration",
        technique="property-based testing (rapid) over upstream lists with injected fates and session-loss histories against a policy reference model; relays count physical connections",
        rule=("case = (1-4 upstreams of kind tcp/tcp+tls/http/udp each with a fate works / refused / answers an error status / works but "
              "insecure while security is required / (separate concurrent enumeration) accepts and stays silent; forward address "
              "none/reachable/unreachable; k=1-5 concurrent local connections; session loss none / carrier cut RST / carrier cut "
              "FIN / server restart, then 1-3 further local connections). Each working server has its own banner target. Oracle "
              "(policy model): forward target answers when reachable, else the first upstream in list order whose fate is "
              "'works'; no upstream after the chosen one is contacted; k concurrent logical connections use exactly one physical "
              "connection; after a loss the next local connection succeeds on at most one new physical connection; a silent "
              "upstream is abandoned within 75 s. non-trivial = forward configured, a loss injected, or a failing first upstream"),
        assumptions=["abandon bound: 15 s for refused/error fates, 75 s for silent peers (the websocket dialer's own time-out is 45 s)"],
        quick=dict(run=".", checks=40, timeout=900, shrinktime="10s"),
        thorough=dict(run=".", checks=200, timeout=3000, shards=6),
        design_ref="DESIGN.md 2/C16",
        level_text=("Generated upstream lists, fates and loss histories on a real client, compared with a reference model of the "
                    "documented policy. A green run means the chosen endpoint, the number of physical sessions and the recovery "
                    "after a loss agreed with the model on every generated case."),
        level_note="Bounded-time observation; fates are scripted by the harness.",
    ),
    "C17": dict(
        pkg="c17",
        level="exploration",
        technique="property-based testing (rapid) of write-then-close histories through real client/server pairs; oracle: accepted bytes then end-of-stream at the other end within a bound",
        rule=("case = (carrier x security configuration, closer app/target, payload length 0..several MiB biased to "
              "0/1/2/4095..4097/32639..32641/32767..32769/65535..65537, partition into writes, close issued after the last "
              "write returned or racing with it (0-400 us after starting it), 0-2 other logical connections open and idle or "
              "actively echoing). Oracle: the non-closing end reads exactly the bytes the closer's writes accepted, then "
              "end-of-stream, within 30 s (120 s DNS); the other logical connections still echo afterwards. non-trivial = "
              "payload length >= 1; distinct = distinct case tuple"),
        assumptions=["after a shutdown of the writing direction nothing further is expected to flow back (the property does not promise half-close semantics), only that the connection ends",
                     "the non-closing end writes nothing on the closing connection, so no unread data can turn the close into a reset"],
        quick=dict(run=".", checks=150, timeout=900),
        thorough=dict(run=".", checks=500, timeout=3000, shards=8),
        design_ref="DESIGN.md 2/C17",
        level_text=("Generated write-then-close cases on freshly started real pairs for every carrier kind. A green run means no "
                    "generated case lost data in flight at close time, withheld the end-of-stream, or broke other logical connections."),
        level_note="Bounded-time observation (30 s / 120 s); sampling only.",
    ),
    "C18": dict(
        pkg="c18",
        level="exploration",
        technique="enumeration of documented schemes and neighbours through the real YAML/JSON/command-line parsers with wire-behaviour probes of the constructed endpoints + property-based testing (rapid) of near-miss address strings",
        rule=("cases = (position server/upstream/listener/channel, input form YAML / JSON flag / command line, address string). Every "
              "documented scheme and +tls variant and a list of neighbours (ws, wss, stdio, upper case, tcp4/tpc4, tcp+ssl, "
              "tls+tcp, ftp, udp+tls, empty, and documented bases with an undocumented '+' suffix: stdin+tsl, stdin+ssl, unix+ssl, dns+tls, https+tls, http+ssl, udp+dtls, tcp+ ...) is parsed by the real go-flags + YamlParser assembly of main.go (command execution "
              "intercepted). Constructed servers are started on loop-back and probed on the wire (plaintext announce answered, TLS "
              "handshake + announce, websocket upgrade, KCP, DNS query over udp/tcp, pipes for stdio); constructed upstreams are "
              "connected to recorders and classified by their first bytes (announce / TLS ClientHello / websocket upgrade / KCP / "
              "DNS query); listeners and channels are classified by constructed type and by reaching a banner target. Oracle: "
              "documented scheme => documented transport and encryption, identical for all input forms; unknown/malformed => "
              "error from parse, Startup or Connect; never a panic; never a +tls/https/wss address that speaks plaintext; an "
              "accepted address must actually be served (no silently different transport). rapid adds near-miss strings "
              "(scheme mutations x separators x host forms) in every position with the no-panic oracle. Every case is "
              "non-trivial; distinct = distinct (position, form, string)"),
        assumptions=["TLS endpoints are configured with a certificate; probes skip verification (authentication is C05)"],
        quick=dict(run=".", checks=1500, timeout=900),
        thorough=dict(run=".", checks=30000, timeout=3000, shards=4),
        design_ref="DESIGN.md 2/C18",
        level_text=("Every documented scheme in every position and input form goes through the real parsers and is judged by what the "
                    "constructed endpoint does on the wire. A green run means documented schemes gave the documented transport in all "
                    "forms, everything else was rejected with an error, and no generated string crashed a parser."),
        level_note="The documented table is transcribed from README.md; probes are the harness's own.",
    ),
    "C19": dict(
        pkg="c19",
        level="exploration",
        technique="model-based stateful property testing (rapid state machine) over wrapper compositions with counting fakes",
        rule=("case = generated history: build a DAG of wrappers (Safe/Named x Connection/Stream/Reader/Writer, ReadWriteCloser pair, "
              "SimulatedConnection, StreamWrappedConnection, BufferedInputConnection; depth <= 4; re-wrapping of already-safe "
              "wrappers) over counting fakes whose Close succeeds or fails, interleaved with Close/TryClose/LogClose/Closed/"
              "Read/Write/String on any layer. Invariants after every step: every fake closed <= 1 times and exactly once when "
              "any enclosing layer was closed; repeated Close returns nil; Closed() true after a close reached the layer and "
              "false on layers no close touched. non-trivial = history with >= 1 close and (depth >= 2 or a failing underlying "
              "close or an inner layer closed before its outer layer); distinct = distinct action history"),
        assumptions=["a raw resource has one owner (wrapping the same raw resource twice independently is outside the property)",
                     "single-threaded call sequences (the property quantifies over call histories, not races)"],
        quick=dict(run=".", checks=6000, steps=40, timeout=300),
        thorough=dict(run=".", checks=120000, steps=60, timeout=1500, shards=8),
        design_ref="DESIGN.md 2/C19",
        level_text=("Stateful generated search against a small reference model (close requested per layer, close count per raw "
                    "resource). A green run means no generated composition and call order closed a resource twice or not at "
                    "all, returned an error on a repeated Close, or answered Closed() inconsistently."),
        level_note="Model and fakes are trusted; concurrency of Close calls is not explored.",
    ),
}

# commits in /repo that add build-tag guarded hooks (none: the overlay technique needs no source hooks)
# generator dimensions added after the seeding rounds (DESIGN.md sections 7 and 8); appended to the rule texts
RULE_ADDENDA = {
    "C01": "TestConcurrentTransfers: 2-5 logical connections of one pair, each announcing itself with a 16-byte header, transfer drawn payloads both ways at the same instant; every one is compared byte for byte. In addition every application write length 1..420 (thorough 1..1600) is sent over one DNS logical connection, one write at a time, and echoed back (all residues of the write length modulo the tunnel's chunk size; always counted non-trivial). The server offers two decoy channels (listed before and after the one in use) whose target must never see a connection. TestAgedSession: negotiation limit lowered to 2 s; per carrier 100000 bytes each way, 2.6 s idle, 100000 more on the same connection. A third of the concurrent-transfer cases make a request for a channel the server does not offer meanwhile; the SOCKETACE_PIPE_DEBUG copy loops are a drawn configuration. TestDNSSessionPastTheSequenceWrap: one DNS physical session carries 14 MiB upstream over 14 logical connections (more packets than the tunnel's 16-bit sequence numbers count); every connection's megabyte must be confirmed by the target and all bytes must be the written ones. Time bounds grow by 30 s per megabyte of the case; a concurrent-transfer case that ran into a time bound is run once more and counts only when it is late again (else inconclusive).",
    "C03": "TestHTTPPathAllowLists: for an HTTP server with two (thorough: three) websocket paths over a table of two channels every combination of per-path allow-lists {all,[x],[y],[x,y]} and every path in use is enumerated. TestConcurrentRequestsOnFreshSessions: 400 (thorough 6000) fresh clients each request eight of twelve channels (eight on the allow-list) at the same instant; allowed names must reach their own target, the others must be refused.",
    "C04": "Experiment 3 also configures the TLS endpoint without any certificate in a quarter of its cases (refusing to start is fine, serving in clear is not). TestCapabilitySpellings: ten spellings of a capability list containing StartTLS (blanks around commas, other capabilities, case) x required security x {tcp, http}. Experiment 3 draws the HTTPS endpoint under its spellings https / wss / http+tls / ws+tls; TestTLSEndpointSpellings enumerates every TLS endpoint spelling against three complete plaintext openings. The wire-observer matrix also spells http upstreams ws:// and https upstreams wss://. TestTLSEndpointSpellings includes the unix+tls endpoint.",
    "C05": "For the matching server certificate two more client certificates are enumerated: one of a foreign CA that has the subject of the server's CA (a Go TLS client withholds a certificate whose issuer the server did not name, so only this one is really presented) and an expired one of the right CA. UDP endpoints that also carry a shared secret (equal on both ends) are judged over server certificate x insecure x client certificate x require like those without. Host-less StartTLS upstream addresses (tcp://:port, udp://:port) x server certificate x insecure: never admitted unless insecure. CA options holding two certificates (an unrelated CA first, the issuing one second). TestSameUpstreamAgain: one TLS upstream object (tcp+tls, https) meets on its second and third attempt a peer without certificate on the same address. The process' platform trust store is made to hold exactly one CA that nobody configures (SSL_CERT_FILE); servers and clients vouched for only by it must be refused like those of any foreign CA. TLS over a unix-domain socket (no host name to match) is enumerated one-sidedly over five server certificates x insecure: never admitted unless insecure. The TLS websocket is also enumerated under its wss:// spelling (five server certificates x insecure x three client certificates x require).",
    "C06": "TestConcurrentHandshakes: 4-16 generated peers of both roles run alone and then all at the same instant over carriers that take 0-2 ms to consume each written message; every peer's outcome must equal its outcome in isolation. After a version conflict the upgrade token is varied (regular, socketace/, socketace, another version). One mutation hides the version offer behind a first line of more than 4096 bytes.",
    "C07": "TestBlackoutThenHealed (real poll loop): 0-4 writes, then 1-30 consecutive lost exchanges during the next write (which may give up and report an error with its accepted count), then a healed path; oracle: exactly the accepted bytes arrive within 15 s and a later write terminates and arrives. The sequence-wrap run is bounded by a watchdog: a Write that never returns fails the test after 6 minutes instead of hanging it.",
    "C11": "Single-record-type paths and the transparent path additionally move every write length 1..450 (thorough 1..2600) each way after the handshake. Size-limited paths drop oversize answers or truncate them (trailing records left out, TC set); 6 single-type paths x limits {512,1232,4096,5000,8192} x {drop, truncate} are enumerated with transfers of 1..9000 bytes.",
    "C12": "Stray names also carry the domain's text partly inside a label (escaped dots and backslashes). TestClientOperationsAgainstHostileServer: every client operation (version handshake, each autodetection, option setting, data exchange, whole Handshake) against a server that answers every query in the tunnel's envelope with a drawn cycle of arbitrary command letters and bodies (error texts with NUL bytes, Base32 of arbitrary bytes, raw bytes); oracle: no panic, returns within 90 s. Server-side messages pass through the function the real UDP/TCP server calls for every datagram (NetConnectionServerCommunicator.handleRequest, with a writer that reports TsigStatus()==nil as miekg/dns does for a server without TSIG secrets) and carry a drawn additional section: nothing, EDNS0, a TSIG record (last, or followed by another record), an address record.",
    "C02": "TestSlowReaderWithinTheSharedBuffer: the stalled connection's target is a unix-domain socket that reads nothing (about 200 KiB of kernel buffering) and is sent 0.7-3 MiB in 1-40 writes; meanwhile an established and a freshly opened connection on the same session must complete 2000-byte echo round trips within the bound; after the release everything arrives at the slow target. TestConcurrentOpensAfterCarrierLoss: carrier lost (reset / orderly end / silence then reset while opens hang), then 2-5 opens at the same instant; all must echo, at most one new physical connection. refusedOpen asks either for a channel the server does not have or for one whose target refuses connections (the server must survive a failed dial and keep serving the others). pendingOpen: a request for a channel whose target neither accepts nor refuses the connection attempt (a listening socket with a full backlog) stays pending on the server while all other actions must keep making progress.",
    "C08": "TestBatchesAndConcurrency: the encodings of a batch of 2-12 inputs are kept and decoded only after the whole batch was encoded; or the batch's round trips run in as many goroutines at the same time (150 iterations each).",
    "C10": "TestDomainLengthSweep: tunnel domains of every length 3..150 (thorough ..200) x record types x codecs selectable over that domain x packet payloads {0,1,30,100,139,140,141,170,200,256,300,400,600,1000}. The payload walk sweeps 48 contents at both sides of every boundary it crosses.",
    "C18": "Every documented upstream is connected a second time and must classify as on the first attempt. YAML texts are parsed three times (majority taken; a disagreement is the known finding yaml-decode-nondeterministic), and one certificate-bearing server configuration is parsed 30000 (thorough 150000) times, every parse compared with the first. JSON-object listener specs must be rejected or give a real listener. Near-miss strings are padded with blanks, tabs and line ends and include the command-line form of channels. TestUpstreamSpellingsMeanTheSameTransport: ws:// vs http:// and wss:// vs https:// upstreams against one real server with a certificate must give the same session (established, reported security, payload invisible on the carrier). Listener specs with a forward address are enumerated for tcp, unix, stdin and stdio listeners; the constructed listener must carry that forward address.",
    "C19": "Action endOfInput: the resource under a drawn node reports end-of-stream to reads from then on (not a close). The connection below a StreamWrappedConnection is either the stream's own resource (then closed exactly once overall) or a lent one that must never be closed.",
    "C13": "openMany: 2-5 version handshakes issued at the same instant (also as the first step of a history); identifiers must be distinct, must be the ones the server accepted, and every session must work. The address pool includes addresses on the owner's host with another port. Half of the sessions negotiate their own upstream / downstream codecs (Base32/64/64u/128, Raw) and fragment sizes (120/200/400) after the version handshake, the way the client's own handshake does; refusals are recognised under whichever codec words them. A spoofed message must also leave the victim session's last-contact time unchanged (it drives the expiry of an abandoned session).",
    "C14": "Histories also carry refused requests (none / unknown channel / channel whose target refuses connections; one after every working connection) and 0-6 idle logical connections open when the session ends, whose sockets and goroutines must be released and whose applications must see end-of-stream. Ending outage-and-recovery: the session is cut while the server is unreachable, two attempts fail, then 20 further connections must work and the footprint must return to idle. A fifth of the histories use a directly forwarding listener. The garbage collector is off while connections are counted; anonymous pipes are not counted. Ending cut-fin-inside-frame: the carrier ends with FIN after 1-7 bytes of a frame header or a header with a short payload; enumerated over tcp and http plain carriers with idle connections open. TestManySessions: per carrier 30 client sessions on one server; the footprint after 30 may not exceed the one after 5. TestSessionsThatNeverComeUp: upstream silent at once / after its first answer / inside StartTLS, negotiation limit 1 s, six local connections must each be closed and leave nothing. TestManySessions includes UDP (thorough: after the keep-alive time; quick: datagram sockets only). A third of the histories give the client a fail-over list with a second, equally reachable entry for the same server. After an ending that leaves no session (all but server-shutdown and outage-and-recovery) the footprint must also be back at what the two ends had before their first session. TestTargetThatAnswersLate: six connections to a channel whose target answers the connection attempt only after 12 s (applications give up after 14 s); afterwards the footprint must be back at idle. Second unit (own process, every tier): TestSilentCarrier - a socket and a websocket session through relays that stop passing anything while all connections stay open; 85 s later the footprint must be back at that before the sessions (plus the relays' own two sockets and copy loops each) and the process idle.",
    "C15": "Second unit (in-package, simulated wire): 6 (thorough 30) listeners, each with 1-3 peers that fall silent after the version handshake / session set-up / a transfer; ConnectionTimeout lowered to 3 s; observed for 72 s (135 s) across the listener's real once-a-minute sweep; a well-behaved client arrives on every listener every few seconds and must complete handshake + 200-byte transfer within 10 s. A DNS peer either keeps polling and is silent on the tunnelled stream only, or stops sending DNS queries altogether once what it sent is acknowledged, leaving the server's answer unfetched; the 5 DNS stall points x {polling, not polling} are enumerated in both tiers in addition to the random draws. Stall kind malformed-request: one of 14 complete but malformed requests (one blank, no blank, blank only, bare upgrade tokens, empty version lists ...), optionally after a good announce, then silence; drawn and enumerated on tcp and udp. Stall point inside-starttls-hello with 1-8 stalled peers on endpoints that offer StartTLS, drawn and enumerated. TestMalformedRequests also runs over the websocket endpoint; every pair is shut down with a bound, so a shutdown that blocks is a failure, not a hang.",
    "C16": "After a loss the further local connections are made one at a time or 2-5 at the same instant; a deviation is re-run once and counts only when reproduced. The silent enumeration also has scripted upstreams that answer the first request (and, offering StartTLS, the upgrade with 101) and then never speak again. Upstream kinds include ws (websocket under its ws:// spelling); with security required [kind/works-but-insecure, tcp/works] and [kind/works-but-insecure] are enumerated for tcp, http, ws, udp. TestFailoverWithVerification: certificate verification on, list entries spelled 127.0.0.1 / localhost, each working server with a certificate for exactly its spelling, first entry refused or answering an error status; and a reconnect after loss. Direct connections over a reachable forward address end orderly, by application reset or by target reset; no upstream may be contacted. TestUpstreamObjectsConnectAgain: every upstream kind (also UDP with a shared secret) connected three times against the unchanged server. TestDNSUpstreamWhoseResolversFail: a DNS upstream naming 1-3 resolvers that answer SERVFAIL / REFUSED at once, followed by a working TCP upstream; echo within 60 s. A third of the policy cases hold one logical connection open, make a request for a channel no server offers (refused), and require the held connection and the single physical session to survive. Forward addresses are TCP addresses or unix-domain sockets given with an absolute path. TestListenerSpecsWithForwardGoDirect: listener specs name~listen~forward for a tcp, a stdin and a stdio listener are parsed by the real parser and started with one working upstream; the local connection must be answered by the forward target and the upstream's target must see nothing.",
    "C17": "Further dimensions: the close may be a shutdown of the writing direction only (the closer then must see its own connection end within the same bound); a request for an unknown channel may be refused between the first and second write. TestWriteThenCloseHammer: 40000 (thorough 400000) short write-then-close connections at GOMAXPROCS 2, every one must deliver its bytes before end-of-stream. TestLongLivedConnection: with the negotiation time limit lowered to 2 s, per carrier a connection is used, idles 2.6 s, is used again and closed by either side. The hammer also runs in the application-to-target direction, three applications at a time. The SOCKETACE_PIPE_DEBUG copy loops are a drawn configuration. The hammer has a third part: eight applications at a time, all processors, target on a unix-domain socket.",
}
for _k, _add in RULE_ADDENDA.items():
    CHECKS[_k]["rule"] = CHECKS[_k]["rule"] + " " + _add

REPO_HOOK_COMMITS = []

_ALL = ["C%02d" % i for i in range(1, 20)]
NOT_APPLICABLE = [
    {"property_id": p, "reason": "check not built yet (work in progress); will be claimed once its harness exists and is quiet on the unchanged tree"}
    for p in _ALL if p not in CHECKS
]
