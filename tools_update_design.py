#!/usr/bin/env python3
"""Regenerates the generated regions of DESIGN.md: the table of fix commits (from /repo's git log and known_findings.json)
and the table of seeded changes (from /verif/seeded/*/meta.json)."""
import json, os, re, subprocess, glob

V = os.path.dirname(os.path.abspath(__file__))
design = open(os.path.join(V, "DESIGN.md")).read()
kf = json.load(open(os.path.join(V, "known_findings.json")))
prop_of = {}
for line in kf.get("fixed", []):
    m = re.match(r"fixed: property=(C\d+) ([0-9a-f]+) ", line)
    if m:
        prop_of[m.group(2)] = m.group(1)
log = subprocess.run(["git", "-C", "/repo", "log", "--reverse", "--format=%h %s"], capture_output=True, text=True).stdout.splitlines()
rows = []
for l in log:
    h, msg = l.split(" ", 1)
    if msg.startswith("fix:"):
        rows.append("| `%s` | %s | %s |" % (h, prop_of.get(h, "?"), msg[5:].replace("|", "/")))
fixes = "| commit | found by | repair |\n|---|---|---|\n" + "\n".join(rows) + "\n"

srows = []
for mf in sorted(glob.glob(os.path.join(V, "seeded", "*", "meta.json"))):
    m = json.load(open(mf))
    name = os.path.basename(os.path.dirname(mf))
    caught = [c for c, v in (m.get("checks_run_against_it") or {}).items() if v.get("exit") == 1]
    missed = [c for c, v in (m.get("checks_run_against_it") or {}).items() if v.get("exit") != 1]
    conf = m.get("confirmed_by_me", {})
    ok = conf.get("existing_suite_passes_with_change") and conf.get("demo_fails_with_change") and conf.get("demo_passes_without_change")
    note = m.get("strengthening", "")
    srows.append("| `%s` | %s | %s | %s | %s | %s |" % (name, m.get("property"), (m.get("summary") or "").replace("|", "/")[:230], "yes" if ok else "NO",
                 ", ".join(caught) or "-", (("not by " + ", ".join(missed) + ". ") if missed else "") + note))
seeded = "| seeded change | property | what was changed | confirmed | caught by (quick tier) | notes |\n|---|---|---|---|---|---|\n" + "\n".join(srows) + "\n"

def put(text, tag, body):
    b, e = "<!-- %s_BEGIN -->" % tag, "<!-- %s_END -->" % tag
    if b in text:
        return re.sub(re.escape(b) + r".*?" + re.escape(e), lambda _: b + "\n" + body + e, text, flags=re.S)
    return text
design = put(design, "FIXES_TABLE", fixes)
design = put(design, "SEEDED_TABLE", seeded)
open(os.path.join(V, "DESIGN.md"), "w").write(design)
print("fix commits:", len(rows), "seeded:", len(srows))
