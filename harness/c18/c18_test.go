//go:build verif

package c18

import (
	"bytes"
	"crypto/tls"
	"encoding/json"
	"fmt"
	"io"
	"net"
	"os"
	"strings"
	"sync"
	"testing"
	"time"

	"github.com/bokysan/socketace/v2/internal/client/listener"
	"github.com/bokysan/socketace/v2/internal/client/upstream"
	"github.com/bokysan/socketace/v2/internal/server"
	"github.com/bokysan/socketace/v2/internal/socketace"
	sdns "github.com/bokysan/socketace/v2/internal/streams/dns"
	"github.com/bokysan/socketace/v2/internal/streams/dns/commands"
	dnsutil "github.com/bokysan/socketace/v2/internal/streams/dns/util"
	"github.com/bokysan/socketace/v2/internal/util/cert"
	"github.com/bokysan/socketace/v2/internal/util/enc"
	"github.com/bokysan/socketace/v2/internal/version"
	"github.com/bokysan/socketace/v2/internal/zzverif/vlib"
	"github.com/gorilla/websocket"
	mdns "github.com/miekg/dns"
	"github.com/xtaci/kcp-go/v5"
	"pgregory.net/rapid"
)

func TestMain(m *testing.M) {
	socketace.HandshakeTimeout = 2 * time.Second
	vlib.Main(m)
}

func announce() []byte {
	return []byte("X-SOCKETACE / HTTP/1.1\r\nAccepts-Protocol-Version: " + version.ProtocolVersion + "\r\nUser-Agent: probe/1.0\r\n\r\n")
}

// ---- wire probes against a started server -------------------------------------------------------------------

func readSome(c net.Conn, d time.Duration) []byte {
	c.SetReadDeadline(time.Now().Add(d))
	buf := make([]byte, 512)
	n, _ := c.Read(buf)
	return buf[:n]
}

func probeSocket(network, address string, useTLS bool, wait time.Duration) bool {
	c, err := net.DialTimeout(network, address, time.Second)
	if err != nil {
		return false
	}
	defer c.Close()
	var conn net.Conn = c
	if useTLS {
		tc := tls.Client(c, &tls.Config{InsecureSkipVerify: true})
		c.SetDeadline(time.Now().Add(wait))
		if err := tc.Handshake(); err != nil {
			return false
		}
		conn = tc
	}
	conn.SetDeadline(time.Now().Add(wait))
	conn.Write(announce())
	return bytes.HasPrefix(readSome(conn, wait), []byte("HTTP/1.1 200"))
}

func probeWS(address, path string, useTLS bool, wait time.Duration) bool {
	scheme := "ws"
	if useTLS {
		scheme = "wss"
	}
	d := &websocket.Dialer{HandshakeTimeout: wait, TLSClientConfig: &tls.Config{InsecureSkipVerify: true}}
	wc, _, err := d.Dial(fmt.Sprintf("%s://%s%s", scheme, address, path), nil)
	if err != nil {
		return false
	}
	defer wc.Close()
	wc.WriteMessage(websocket.BinaryMessage, announce())
	wc.SetReadDeadline(time.Now().Add(wait))
	_, m, err := wc.ReadMessage()
	return err == nil && bytes.HasPrefix(m, []byte("HTTP/1.1 200"))
}

func probeKCP(address string, wait time.Duration) bool {
	ra, err := net.ResolveUDPAddr("udp", address)
	if err != nil {
		return false
	}
	pc, err := net.ListenPacket("udp", "127.0.0.1:0")
	if err != nil {
		return false
	}
	kc, err := kcp.NewConn2(ra, nil, 10, 3, pc)
	if err != nil {
		pc.Close()
		return false
	}
	defer kc.Close()
	kc.Write(announce())
	return bytes.HasPrefix(readSome(kc, wait), []byte("HTTP/1.1 200"))
}

func probeDNS(address, network, domain string, wait time.Duration) bool {
	ser := commands.Serializer{Domain: domain, Upstream: dnsutil.UpstreamConfig{Encoder: enc.Base32Encoding}}
	msg, err := ser.EncodeDnsRequestWithParams(&commands.VersionRequest{ClientVersion: sdns.ProtocolVersion}, dnsutil.QueryTypeNull, enc.Base32Encoding)
	if err != nil {
		return false
	}
	msg.Id = 4242
	cl := &mdns.Client{Net: network, Timeout: wait}
	r, _, err := cl.Exchange(msg, address)
	return err == nil && r != nil && len(r.Answer) > 0
}

// ---- documented scheme table ------------------------------------------------------------------------------------

type want struct {
	kind string // socket, ws, kcp, dns-udp, dns-tcp, stdio, "" = must be rejected
	tls  bool
}

// documented in README (servers section); neighbours are listed with kind "?" = only safety is judged.
var serverSchemes = []struct {
	scheme string
	w      want
	doc    bool
}{
	{"tcp", want{"socket", false}, true},
	{"tcp+tls", want{"socket", true}, true},
	{"unix", want{"socket", false}, true},
	{"unix+tls", want{"socket", true}, true},
	{"http", want{"ws", false}, true},
	{"https", want{"ws", true}, true},
	{"udp", want{"kcp", false}, true},
	{"dns+udp", want{"dns-udp", false}, true},
	{"dns+tcp", want{"dns-tcp", false}, true},
	{"stdin", want{"stdio", false}, true},
	{"stdin+tls", want{"stdio", true}, true},
	// neighbours: accepted by the code or not, never documented
	{"ws", want{"?", false}, false},
	{"wss", want{"?", true}, false},
	{"http+tls", want{"?", true}, false},
	{"stdio", want{"?", false}, false},
	{"stdio+tls", want{"?", true}, false},
	{"TCP", want{"?", false}, false},
	{"Tcp+TLS", want{"?", true}, false},
	{"tcp4", want{"?", false}, false},
	{"tpc4", want{"?", false}, false},
	{"tcp6", want{"?", false}, false},
	{"tcp+ssl", want{"", false}, false},
	{"tls+tcp", want{"", false}, false},
	{"tcp+tls+tls", want{"?", true}, false},
	{"ftp", want{"", false}, false},
	{"udp+tls", want{"", false}, false},
	{"dns", want{"?", false}, false},
	{"dns+tcp+tls", want{"?", true}, false},
	{"", want{"", false}, false},
}

type serverCase struct {
	Scheme  string `json:"scheme"`
	Form    string `json:"form"` // yaml, json-flag
	Address string `json:"address"`
}

var unixSeq int

func serverAddress(scheme string) (address string, port int, unixPath string) {
	base := strings.ToLower(strings.SplitN(scheme, "+", 2)[0])
	switch {
	case base == "unix":
		unixSeq++
		unixPath = fmt.Sprintf("c18-%d-%d.sock", os.Getpid(), unixSeq)
		os.Remove(unixPath)
		return scheme + "://" + unixPath, 0, unixPath
	case base == "stdin" || base == "stdio":
		return scheme + "://", 0, ""
	case scheme == "":
		port = vlib.Port()
		return fmt.Sprintf("127.0.0.1:%d", port), port, ""
	default:
		port = vlib.Port()
		return fmt.Sprintf("%s://127.0.0.1:%d", scheme, port), port, ""
	}
}

func serverConfigText(form, address string) (text string, argv []string) {
	kp := vlib.ServerCertFor("match", "localhost")
	switch form {
	case "yaml":
		text = "server:\n  channels:\n    - name: data\n      address: tcp://127.0.0.1:9\n  servers:\n    - address: " + yamlQuote(address) + "\n" +
			"      domain: example.org\n      endpoints:\n        - endpoint: /ws/all\n" +
			"      certificate: |\n" + indent(kp.CertPEM, "        ") + "\n      privateKey: |\n" + indent(kp.KeyPEM, "        ") + "\n"
		return text, nil
	default:
		obj := []map[string]interface{}{{"address": address, "domain": "example.org", "endpoints": []map[string]interface{}{{"endpoint": "/ws/all"}},
			"certificate": kp.CertPEM, "privateKey": kp.KeyPEM}}
		b, _ := json.Marshal(obj)
		return "", []string{"server", "--server", string(b)}
	}
}

// observe starts the constructed server and reports which transport answers on its address.
func observe(srv server.Server, port int, unixPath string) (kind string, tlsOn bool, plainAnswers bool, startErr error, panicMsg string) {
	defer func() {
		if r := recover(); r != nil {
			panicMsg = fmt.Sprint(r)
		}
	}()
	var stdioIn, stdioOut *os.File
	var toSrv, fromSrv *os.File
	if io, ok := srv.(*server.IoServer); ok {
		var err error
		stdioIn, toSrv, err = os.Pipe()
		if err != nil {
			return "", false, false, err, ""
		}
		fromSrv, stdioOut, _ = os.Pipe()
		io.Input, io.Output = stdioIn, stdioOut
		defer func() { toSrv.Close(); fromSrv.Close(); stdioIn.Close(); stdioOut.Close() }()
	}
	if err := srv.Startup(server.Channels{}); err != nil {
		return "", false, false, err, ""
	}
	defer func() {
		defer func() { recover() }()
		srv.Shutdown()
	}()
	const wait = 700 * time.Millisecond
	const short = 350 * time.Millisecond
	addr := vlib.HostPort(port)
	switch srv.(type) {
	case *server.SocketServer:
		network := "tcp"
		if unixPath != "" {
			network, addr = "unix", unixPath
			if _, err := os.Stat(unixPath); err != nil {
				return "none", false, false, nil, ""
			}
		}
		if probeSocket(network, addr, true, wait) {
			return "socket", true, probeSocket(network, addr, false, short), nil, ""
		}
		if probeSocket(network, addr, false, wait) {
			return "socket", false, true, nil, ""
		}
	case *server.HttpServer:
		if probeWS(addr, "/ws/all", true, wait) {
			return "ws", true, probeWS(addr, "/ws/all", false, short), nil, ""
		}
		if probeWS(addr, "/ws/all", false, wait) {
			return "ws", false, true, nil, ""
		}
	case *server.PacketServer:
		if probeKCP(addr, wait) {
			return "kcp", false, true, nil, ""
		}
	case *server.DnsServer:
		if probeDNS(addr, "udp", "example.org", wait) {
			return "dns-udp", false, true, nil, ""
		}
		if probeDNS(addr, "tcp", "example.org", wait) {
			return "dns-tcp", false, true, nil, ""
		}
		if probeDNS(addr, "tcp-tls", "example.org", wait) {
			return "dns-tcp", true, false, nil, ""
		}
	case *server.IoServer:
		// plaintext announce on the pipes
		toSrv.Write(announce())
		got := make(chan []byte, 1)
		go func() {
			buf := make([]byte, 512)
			n, _ := fromSrv.Read(buf)
			got <- buf[:n]
		}()
		select {
		case b := <-got:
			if bytes.HasPrefix(b, []byte("HTTP/1.1 200")) {
				return "stdio", false, true, nil, ""
			}
			// a TLS server answers a plaintext announce with an alert record
			if len(b) > 0 && b[0] == 0x15 {
				return "stdio", true, false, nil, ""
			}
			return "stdio", false, false, nil, ""
		case <-time.After(wait):
			return "stdio", true, false, nil, "" // waits for a complete TLS record: nothing in clear
		}
	}
	return "none", false, false, nil, ""
}

func judgeServer(sc serverCase, w want, documented bool) (msg string, obs string) {
	address, port, unixPath := sc.Address, 0, ""
	address, port, unixPath = serverAddress(sc.Scheme)
	if unixPath != "" {
		defer os.Remove(unixPath)
	}
	text, argv := serverConfigText(sc.Form, address)
	var p parsed
	if sc.Form == "yaml" {
		p = parseYAML(text, "server")
	} else {
		p = parseArgs(argv)
	}
	if p.Panic != "" {
		return "configuration parser panicked: " + p.Panic, "panic"
	}
	if p.Err != nil {
		if documented {
			return fmt.Sprintf("documented scheme %q rejected by the %s form: %v", sc.Scheme, sc.Form, p.Err), "parse-error"
		}
		return "", "parse-error"
	}
	if len(p.Server.Servers) != 1 {
		if documented {
			return fmt.Sprintf("documented scheme %q: %d servers constructed", sc.Scheme, len(p.Server.Servers)), "none"
		}
		return "", fmt.Sprintf("servers:%d", len(p.Server.Servers))
	}
	kind, tlsOn, plain, startErr, pmsg := observe(p.Server.Servers[0], port, unixPath)
	if pmsg != "" {
		return "server start-up panicked: " + pmsg, "panic"
	}
	if startErr != nil {
		if documented {
			return fmt.Sprintf("documented scheme %q fails at start-up: %v", sc.Scheme, startErr), "startup-error"
		}
		return "", "startup-error"
	}
	obs = fmt.Sprintf("%s tls=%v plain-answers=%v", kind, tlsOn, plain)
	wantsTLS := w.tls
	if wantsTLS && plain {
		return fmt.Sprintf("address %q asks for an encrypted transport but the endpoint completes a plaintext handshake (%s)", address, obs), obs
	}
	if wantsTLS && kind != "none" && !tlsOn {
		return fmt.Sprintf("address %q asks for an encrypted transport but the endpoint is not encrypted (%s)", address, obs), obs
	}
	if documented {
		if kind != w.kind || tlsOn != w.tls {
			return fmt.Sprintf("address %q must give %s tls=%v per the documentation, observed %s", address, w.kind, w.tls, obs), obs
		}
	} else if w.kind == "" {
		return fmt.Sprintf("unknown scheme in %q neither rejected at parse nor at start-up: a %s endpoint answers", address, obs), obs
	}
	return "", obs
}

func TestServerSchemes(t *testing.T) {
	for _, s := range serverSchemes {
		var observed []string
		for _, form := range []string{"yaml", "json-flag"} {
			sc := serverCase{Scheme: s.scheme, Form: form}
			msg, obs := judgeServer(sc, s.w, s.doc)
			observed = append(observed, obs)
			labels := []string{"position:server", "form:" + form, fmt.Sprintf("documented:%v", s.doc), "observed:" + obs}
			vlib.Rec.Case(fmt.Sprintf("server %+v", sc), true, labels, func() interface{} { return map[string]interface{}{"case": sc, "observed": obs} })
			if msg != "" {
				report(t, "server-scheme="+strings.ToLower(s.scheme), map[string]interface{}{"position": "server", "case": sc}, msg)
			}
		}
		if observed[0] != observed[1] {
			report(t, "server-forms-disagree="+s.scheme, map[string]interface{}{"position": "server", "scheme": s.scheme}, fmt.Sprintf("YAML and JSON forms disagree for scheme %q: %q vs %q", s.scheme, observed[0], observed[1]))
		}
	}
	// the documented absolute-path form of unix sockets
	for _, form := range []string{"yaml", "json-flag"} {
		path := fmt.Sprintf("%s/c18-abs-%d.sock", os.Getenv("VERIF_RUNDIR"), os.Getpid())
		if os.Getenv("VERIF_RUNDIR") == "" {
			path = fmt.Sprintf("%s/c18-abs-%d.sock", os.TempDir(), os.Getpid())
		}
		os.Remove(path)
		address := "unix://" + path
		text, argv := serverConfigText(form, address)
		var p parsed
		if form == "yaml" {
			p = parseYAML(text, "server")
		} else {
			p = parseArgs(argv)
		}
		sc := serverCase{Scheme: "unix", Form: form, Address: address}
		vlib.Rec.Case(fmt.Sprintf("server-abs %+v", sc), true, []string{"position:server", "unix-absolute-path"}, func() interface{} { return sc })
		if p.Panic != "" || p.Err != nil || len(p.Server.Servers) != 1 {
			report(t, "server-unix-absolute-path", map[string]interface{}{"case": sc}, fmt.Sprintf("documented form %q not accepted: err=%v panic=%q", address, p.Err, p.Panic))
			continue
		}
		kind, _, _, startErr, pmsg := observe(p.Server.Servers[0], 0, path)
		os.Remove(path)
		if pmsg != "" {
			report(t, "server-unix-absolute-path", map[string]interface{}{"case": sc}, "panic: "+pmsg)
		} else if startErr == nil && kind != "socket" {
			report(t, "server-unix-absolute-path", map[string]interface{}{"case": sc}, fmt.Sprintf("documented form %q starts without error but no socket exists at that path (observed %q): silently different transport", address, kind))
		}
	}
}

func report(t *testing.T, sig string, c map[string]interface{}, msg string) {
	if vlib.IsKnown("C18", sig) {
		c["problem"] = msg
		vlib.Rec.Known(sig, c)
		return
	}
	c["property"] = "C18"
	c["signature"] = sig
	c["problem"] = msg
	vlib.Rec.Violation(c)
	if t == nil {
		vlib.FailLater(fmt.Sprintf("C18 [%s]: %s", sig, msg))
		return
	}
	t.Errorf("C18 [%s] %v: %s", sig, c, msg)
}

// ---- upstream URLs ------------------------------------------------------------------------------------------------

// firstBytes starts every kind of recorder on one port / path and returns what the upstream sent first.
type recorder struct {
	mu    sync.Mutex
	first map[string][]byte
	ln    []io.Closer
}

func (r *recorder) put(k string, b []byte) {
	r.mu.Lock()
	if _, ok := r.first[k]; !ok && len(b) > 0 {
		r.first[k] = append([]byte(nil), b...)
	}
	r.mu.Unlock()
}

func newRecorder(port int, unixPath string) *recorder {
	r := &recorder{first: map[string][]byte{}}
	serve := func(network, address string) {
		ln, err := net.Listen(network, address)
		if err != nil {
			return
		}
		r.ln = append(r.ln, ln)
		go func() {
			for {
				c, err := ln.Accept()
				if err != nil {
					return
				}
				go func(c net.Conn) {
					defer c.Close()
					r.put(network, readSome(c, 800*time.Millisecond))
				}(c)
			}
		}()
	}
	if unixPath != "" {
		serve("unix", unixPath)
	}
	if port != 0 {
		serve("tcp", vlib.HostPort(port))
		pc, err := net.ListenPacket("udp", vlib.HostPort(port))
		if err == nil {
			r.ln = append(r.ln, pc)
			go func() {
				buf := make([]byte, 2048)
				for {
					n, _, err := pc.ReadFrom(buf)
					if err != nil {
						return
					}
					r.put("udp", buf[:n])
				}
			}()
		}
	}
	return r
}

func (r *recorder) close() {
	for _, l := range r.ln {
		l.Close()
	}
}

func classify(network string, b []byte) string {
	switch {
	case len(b) == 0:
		return ""
	case network == "udp":
		var m mdns.Msg
		if m.Unpack(b) == nil && len(m.Question) == 1 {
			return "dns-udp"
		}
		return "kcp"
	case network == "tcp" && len(b) > 2 && int(b[0])<<8|int(b[1]) == len(b)-2 && (&mdns.Msg{}).Unpack(b[2:]) == nil:
		return "dns-tcp"
	case b[0] == 0x16 && len(b) > 2 && b[1] == 0x03:
		return network + "+tls-hello"
	case bytes.HasPrefix(b, []byte("X-SOCKETACE ")):
		return network + "+plain-announce"
	case bytes.HasPrefix(b, []byte("GET ")) && bytes.Contains(bytes.ToLower(b), []byte("upgrade: websocket")):
		return network + "+websocket-upgrade"
	}
	return network + "+other"
}

var upstreamSchemes = []struct {
	scheme string
	want   string // classification expected, "" = must be rejected, "?" = only safety judged
	tls    bool
	doc    bool
}{
	{"tcp", "tcp+plain-announce", false, true},
	{"tcp+tls", "tcp+tls-hello", true, true},
	{"unix", "unix+plain-announce", false, true},
	{"unix+tls", "unix+tls-hello", true, true},
	{"http", "tcp+websocket-upgrade", false, true},
	{"https", "tcp+tls-hello", true, true},
	{"udp", "kcp", false, true},
	{"dns", "dns-udp", false, true},
	{"stdin", "stdio+plain-announce", false, true},
	{"stdin+tls", "stdio+tls-hello", true, true},
	{"ws", "?", false, false},
	{"wss", "?", true, false},
	{"TCP+TLS", "?", true, false},
	{"tcp+ssl", "", false, false},
	{"ftp", "", false, false},
	{"tls+tcp", "", false, false},
	{"udp+tls", "", true, false},
	{"stdio", "?", false, false},
	{"tcp4", "?", false, false},
	{"", "", false, false},
	// a documented base with an undocumented or mistyped '+' variant is an unknown scheme
	{"stdin+tsl", "", false, false},
	{"stdin+ssl", "", false, false},
	{"unix+ssl", "", false, false},
	{"dns+tls", "", false, false},
	{"https+tls", "", false, false},
	{"http+ssl", "", false, false},
	{"udp+dtls", "", false, false},
	{"tcp+", "", false, false},
}

type upstreamCase struct {
	Scheme string `json:"scheme"`
	Form   string `json:"form"` // cli, yaml
	URL    string `json:"url"`
}

func upstreamURL(scheme string) (url string, port int, unixPath string) {
	base := strings.ToLower(strings.SplitN(scheme, "+", 2)[0])
	switch {
	case base == "unix":
		unixSeq++
		unixPath = fmt.Sprintf("c18u-%d-%d.sock", os.Getpid(), unixSeq)
		os.Remove(unixPath)
		return scheme + "://" + unixPath, 0, unixPath
	case base == "stdin" || base == "stdio":
		return scheme + "://", 0, ""
	case base == "dns":
		port = vlib.Port()
		return fmt.Sprintf("%s://example.org?direct=false&dns=127.0.0.1:%d", scheme, port), port, ""
	case base == "http" || base == "https" || base == "ws" || base == "wss":
		port = vlib.Port()
		return fmt.Sprintf("%s://127.0.0.1:%d/ws/all", scheme, port), port, ""
	case scheme == "":
		port = vlib.Port()
		return fmt.Sprintf("127.0.0.1:%d", port), port, ""
	default:
		port = vlib.Port()
		return fmt.Sprintf("%s://127.0.0.1:%d", scheme, port), port, ""
	}
}

func judgeUpstream(uc upstreamCase, want string, wantTLS, documented bool) (msg, obs string) {
	url, port, unixPath := upstreamURL(uc.Scheme)
	uc.URL = url
	if unixPath != "" {
		defer os.Remove(unixPath)
	}
	var p parsed
	if uc.Form == "cli" {
		p = parseArgs([]string{"client", "--upstream", url, "--listen", fmt.Sprintf("data~tcp://127.0.0.1:%d", vlib.Port())})
	} else {
		p = parseYAML("client:\n  upstream:\n    - "+yamlQuote(url)+"\n  listen:\n    - "+yamlQuote(fmt.Sprintf("data~tcp://127.0.0.1:%d", vlib.Port()))+"\n", "client")
	}
	if p.Panic != "" {
		return "configuration parser panicked: " + p.Panic, "panic"
	}
	if p.Err != nil {
		if documented {
			return fmt.Sprintf("documented upstream scheme %q rejected by the %s form: %v", uc.Scheme, uc.Form, p.Err), "parse-error"
		}
		return "", "parse-error"
	}
	if len(p.Client.Upstream.Data) != 1 {
		if documented {
			return fmt.Sprintf("documented upstream %q: %d upstreams constructed by the %s form", url, len(p.Client.Upstream.Data), uc.Form), "none"
		}
		return "", fmt.Sprintf("upstreams:%d", len(p.Client.Upstream.Data))
	}
	up := p.Client.Upstream.Data[0]
	rec := newRecorder(port, unixPath)
	defer rec.close()
	var pipeR *os.File
	if io2, ok := up.(*upstream.InputOutput); ok {
		// standard streams: give it pipes and look at what it writes
		inR, inW, _ := os.Pipe()
		outR, outW, _ := os.Pipe()
		defer inR.Close()
		defer inW.Close()
		defer outW.Close()
		pipeR = outR
		io2.Input, io2.Output = inR, outW
		go func() {
			buf := make([]byte, 512)
			n, _ := outR.Read(buf)
			rec.put("stdio", buf[:n])
		}()
	}
	var cerr error
	pmsg := ""
	done := make(chan struct{})
	go func() {
		defer close(done)
		defer func() {
			if r := recover(); r != nil {
				pmsg = fmt.Sprint(r)
			}
		}()
		cerr = up.Connect(&cert.ClientConfig{InsecureSkipVerify: true}, false)
	}()
	select {
	case <-done:
	case <-time.After(6 * time.Second):
	}
	if pipeR != nil {
		defer pipeR.Close()
	}
	if pmsg != "" {
		return "Connect panicked: " + pmsg, "panic"
	}
	time.Sleep(50 * time.Millisecond)
	rec.mu.Lock()
	var seen []string
	for _, k := range []string{"tcp", "unix", "udp", "stdio"} {
		if c := classify(k, rec.first[k]); c != "" {
			seen = append(seen, c)
		}
	}
	rec.mu.Unlock()
	obs = strings.Join(seen, ",")
	if obs == "" {
		obs = "nothing"
		if cerr != nil {
			obs = "connect-error"
		}
	}
	for _, c := range seen {
		if wantTLS && (strings.Contains(c, "plain") || strings.Contains(c, "websocket-upgrade") || c == "kcp") {
			return fmt.Sprintf("upstream %q asks for an encrypted transport but speaks in clear: %s", url, obs), obs
		}
	}
	if want == "dns-udp" && (obs == "dns-tcp" || obs == "dns-tcp,dns-udp") {
		obs = "dns-udp" // the DNS upstream may try the resolver over TCP first: both are the documented DNS transport
	}
	if documented && obs != want {
		return fmt.Sprintf("upstream %q must give %s per the documentation, observed %s (connect error: %v)", url, want, obs, cerr), obs
	}
	if !documented && want == "" && len(seen) > 0 {
		return fmt.Sprintf("unknown scheme in %q was not rejected: the client sent %s", url, obs), obs
	}
	// the address means the same on every connection attempt of the upstream built from it (the client connects again
	// after a failed attempt or a lost session)
	if documented && pipeR == nil && len(seen) > 0 {
		rec.mu.Lock()
		rec.first = map[string][]byte{}
		rec.mu.Unlock()
		done2 := make(chan struct{})
		go func() {
			defer close(done2)
			defer func() { recover() }()
			_ = up.Connect(&cert.ClientConfig{InsecureSkipVerify: true}, false)
		}()
		select {
		case <-done2:
		case <-time.After(6 * time.Second):
		}
		time.Sleep(50 * time.Millisecond)
		rec.mu.Lock()
		var seen2 []string
		for _, k := range []string{"tcp", "unix", "udp", "stdio"} {
			if c := classify(k, rec.first[k]); c != "" {
				seen2 = append(seen2, c)
			}
		}
		rec.mu.Unlock()
		obs2 := strings.Join(seen2, ",")
		if want == "dns-udp" && (obs2 == "dns-tcp" || obs2 == "dns-tcp,dns-udp") {
			obs2 = "dns-udp"
		}
		for _, c := range seen2 {
			if wantTLS && (strings.Contains(c, "plain") || strings.Contains(c, "websocket-upgrade") || c == "kcp") {
				return fmt.Sprintf("upstream %q asks for an encrypted transport but speaks in clear on its second connection attempt: %s (first attempt: %s)", url, obs2, obs), obs
			}
		}
		if obs2 != "" && obs2 != obs {
			return fmt.Sprintf("upstream %q gives %s on its first connection attempt and %s on its second", url, obs, obs2), obs
		}
	}
	return "", obs
}

func TestUpstreamSchemes(t *testing.T) {
	for _, s := range upstreamSchemes {
		var observed []string
		for _, form := range []string{"cli", "yaml"} {
			uc := upstreamCase{Scheme: s.scheme, Form: form}
			msg, obs := judgeUpstream(uc, s.want, s.tls, s.doc)
			observed = append(observed, obs)
			vlib.Rec.Case(fmt.Sprintf("upstream %+v", uc), true, []string{"position:upstream", "form:" + form, fmt.Sprintf("documented:%v", s.doc), "observed:" + obs}, func() interface{} { return map[string]interface{}{"case": uc, "observed": obs} })
			if msg != "" {
				report(t, "upstream-"+form+"-scheme="+strings.ToLower(s.scheme), map[string]interface{}{"position": "upstream", "case": uc}, msg)
			}
		}
		if observed[0] != observed[1] && observed[0] != "panic" && observed[1] != "panic" {
			report(t, "upstream-forms-disagree="+strings.ToLower(s.scheme), map[string]interface{}{"position": "upstream", "scheme": s.scheme}, fmt.Sprintf("command-line and YAML forms disagree for upstream scheme %q: %q vs %q", s.scheme, observed[0], observed[1]))
		}
	}
}

// ---- listener specs -----------------------------------------------------------------------------------------------

func TestListenerSpecs(t *testing.T) {
	type lc struct {
		Spec string
		Want string // socket-tcp, socket-unix, stdio, "" = rejected
		Fwd  bool
	}
	p1, p2 := vlib.Port(), vlib.Port()
	unixSeq++
	up := fmt.Sprintf("c18l-%d-%d.sock", os.Getpid(), unixSeq)
	cases := []lc{
		{fmt.Sprintf("data~tcp://127.0.0.1:%d", p1), "socket-tcp", false},
		{fmt.Sprintf("data~tcp://127.0.0.1:%d~tcp://127.0.0.1:9", p2), "socket-tcp", true},
		{"data~unix://" + up, "socket-unix", false},
		{"data~stdin://", "stdio", false},
		{"data~stdio://", "stdio", false},
		// the optional forward address belongs to every listener kind
		{"data~stdin://~tcp://127.0.0.1:9", "stdio", true},
		{"data~stdio://~tcp://127.0.0.1:9", "stdio", true},
		{"data~unix://" + up + "2~tcp://127.0.0.1:9", "socket-unix", true},
		{"data", "", false},
		{"data~", "", false},
		{"data~ftp://127.0.0.1:1", "", false},
		{"data~udp://127.0.0.1:1", "", false},
		{"data~tcp+tls://127.0.0.1:1", "", false},
		{"~", "", false},
		{"data~tcp://127.0.0.1:1~~", "?", false},
		{"data~://", "", false},
		{"{\"name\":\"data\",\"address\":\"tcp://127.0.0.1:1\"}", "?", false},
		// a JSON object is no documented listener form: rejected, or - if a version accepts it - a real listener
		{"{\"name\":\"data\",\"address\":\"unix://c18-json.sock\"}", "?", false},
		{"{\"name\":\"data\",\"address\":\"stdin://\"}", "?", false},
		{"{\"name\":\"data\",\"address\":22}", "", false},
		{"{\"name\":\"data\",\"address\":null}", "", false},
		{"{\"name\":\"data\"}", "", false},
		{"{}", "", false},
	}
	for _, c := range cases {
		for _, form := range []string{"cli", "yaml"} {
			var p parsed
			if form == "cli" {
				p = parseArgs([]string{"client", "--upstream", "tcp://127.0.0.1:9", "--listen", c.Spec})
			} else {
				p = parseYAML("client:\n  upstream:\n    - \"tcp://127.0.0.1:9\"\n  listen:\n    - "+yamlQuote(c.Spec)+"\n", "client")
			}
			desc := map[string]interface{}{"position": "listener", "form": form, "spec": c.Spec}
			obs := ""
			switch {
			case p.Panic != "":
				obs = "panic"
			case p.Err != nil:
				obs = "parse-error"
			case len(p.Client.ListenList) != 1:
				obs = fmt.Sprintf("listeners:%d", len(p.Client.ListenList))
			default:
				switch l := p.Client.ListenList[0].(type) {
				case nil:
					obs = "nil-listener"
				case *listener.SocketListener:
					obs = "socket-" + l.Address.Scheme
					if (l.Forward != nil) != c.Fwd {
						obs += "-forward-mismatch"
					}
					if l.Name != "data" {
						obs += "-name:" + l.Name
					}
				case *listener.InputOutputListener:
					obs = "stdio"
					if (l.Forward != nil) != c.Fwd {
						obs += "-forward-mismatch"
					} else if l.Forward != nil && l.Forward.Host != "127.0.0.1:9" {
						obs += "-forward:" + l.Forward.String()
					}
					if l.Name != "data" {
						obs += "-name:" + l.Name
					}
				default:
					obs = fmt.Sprintf("%T", l)
				}
			}
			vlib.Rec.Case(fmt.Sprintf("listener %s %s", form, c.Spec), true, []string{"position:listener", "form:" + form, "observed:" + obs}, func() interface{} { return desc })
			sig := "listener-" + form
			switch {
			case obs == "panic":
				report(t, sig+"-panic", desc, "parser panicked: "+p.Panic)
			case obs == "nil-listener":
				report(t, sig+"-accepted-without-listener", desc, fmt.Sprintf("listener %q is accepted without error but no listener is constructed (the client then fails at start-up)", c.Spec))
			case c.Want == "?":
			case c.Want == "" && obs != "parse-error":
				report(t, sig+"-accepts-malformed", desc, fmt.Sprintf("malformed listener %q accepted as %s", c.Spec, obs))
			case c.Want != "" && obs != c.Want:
				report(t, sig+"-documented-form", desc, fmt.Sprintf("listener %q must give %s, observed %s (err %v)", c.Spec, c.Want, obs, p.Err))
			}
		}
	}
	os.Remove(up)
	os.Remove(up + "2")
}

// ---- channel addresses -----------------------------------------------------------------------------------------

func TestChannelSpecs(t *testing.T) {
	tgt := vlib.NewTarget("chan", vlib.BannerEchoHandler)
	defer tgt.Close()
	unixSeq++
	upath := fmt.Sprintf("c18c-%d-%d.sock", os.Getpid(), unixSeq)
	os.Remove(upath)
	uln, err := net.Listen("unix", upath)
	if err == nil {
		defer uln.Close()
		defer os.Remove(upath)
		go func() {
			for {
				c, err := uln.Accept()
				if err != nil {
					return
				}
				c.Write([]byte("unix-chan\n"))
				c.Close()
			}
		}()
	}
	reach := func(ch server.Channel) (banner string, pmsg string) {
		defer func() {
			if r := recover(); r != nil {
				pmsg = fmt.Sprint(r)
			}
		}()
		c, err := ch.OpenConnection()
		if err != nil || c == nil {
			return "error", ""
		}
		defer c.Close()
		got := make(chan []byte, 1)
		go func() { got <- readSome(c, time.Second) }()
		select {
		case b := <-got:
			return strings.TrimSpace(string(b)), ""
		case <-time.After(1500 * time.Millisecond):
			return "silent", ""
		}
	}
	type cc struct {
		Name, Address string
		Want          string // banner, "" = rejected at parse, "error" = rejected at use
		Doc           bool
	}
	cases := []cc{
		{"web", tgt.URL(), "chan", true},
		{"ux", "unix://" + upath, "unix-chan", true},
		{"bad", "ftp://127.0.0.1:1", "", false},
		{"bad", "udp://127.0.0.1:1", "", false},
		{"bad", "tcp+tls://127.0.0.1:1", "", false},
		{"bad", "", "", false},
		{"bad", "127.0.0.1:1", "", false},
		{"socks", "socks://", "?", false},
		{"up", "TCP://" + tgt.Addr(), "chan", false},
	}
	for _, c := range cases {
		// YAML form
		p := parseYAML("server:\n  channels:\n    - name: "+yamlQuote(c.Name)+"\n      address: "+yamlQuote(c.Address)+"\n", "server")
		desc := map[string]interface{}{"position": "channel", "form": "yaml", "name": c.Name, "address": c.Address}
		obs := ""
		switch {
		case p.Panic != "":
			obs = "panic"
		case p.Err != nil:
			obs = "parse-error"
		case len(p.Server.Channels) != 1:
			obs = fmt.Sprintf("channels:%d", len(p.Server.Channels))
		default:
			b, pm := reach(p.Server.Channels[0])
			obs = "banner:" + b
			if pm != "" {
				obs = "panic"
				p.Panic = pm
			}
			if p.Server.Channels[0].Name() != c.Name {
				obs += " name:" + p.Server.Channels[0].Name()
			}
		}
		vlib.Rec.Case(fmt.Sprintf("channel yaml %v", c), true, []string{"position:channel", "form:yaml", "observed:" + strings.SplitN(obs, ":", 2)[0]}, func() interface{} { return desc })
		switch {
		case obs == "panic":
			report(t, "channel-yaml-panic", desc, "panic: "+p.Panic)
		case c.Want == "?":
		case c.Want == "" && obs != "parse-error" && obs != "banner:error":
			report(t, "channel-yaml-accepts-malformed", desc, fmt.Sprintf("malformed channel address %q accepted: %s", c.Address, obs))
		case c.Want != "" && obs != "banner:"+c.Want:
			report(t, "channel-yaml-documented-form", desc, fmt.Sprintf("channel %q must reach %q, observed %s (err %v)", c.Address, c.Want, obs, p.Err))
		}
	}
	// missing / non-string address key
	for i, text := range []string{
		"server:\n  channels:\n    - name: x\n",
		"server:\n  channels:\n    - name: x\n      address: 5\n",
		"server:\n  channels:\n    - name: x\n      address: [a, b]\n",
		"server:\n  channels:\n    - justastring\n",
	} {
		p := parseYAML(text, "server")
		desc := map[string]interface{}{"position": "channel", "form": "yaml", "text": text}
		vlib.Rec.Case(fmt.Sprintf("channel yaml malformed %d", i), true, []string{"position:channel", "malformed-structure"}, func() interface{} { return desc })
		if p.Panic != "" {
			report(t, "channel-yaml-missing-address-panic", desc, "a channel without a usable address crashes the parser: "+p.Panic)
		} else if p.Err == nil {
			report(t, "channel-yaml-missing-address-accepted", desc, "a channel without a usable address was accepted")
		}
	}
	// command-line form, as documented in the option's help text: '<name>-><protocol>:<address>'
	for _, spec := range []string{"ssh->tcp:" + tgt.Addr(), "/ssh->tcp:" + tgt.Addr()} {
		p := parseArgs([]string{"server", "--channel", spec})
		desc := map[string]interface{}{"position": "channel", "form": "cli", "spec": spec}
		obs := ""
		switch {
		case p.Panic != "":
			obs = "panic"
		case p.Err != nil:
			obs = "parse-error"
		case len(p.Server.Channels) != 1:
			obs = fmt.Sprintf("channels:%d", len(p.Server.Channels))
		default:
			b, pm := reach(p.Server.Channels[0])
			obs = fmt.Sprintf("name=%q banner=%s", p.Server.Channels[0].Name(), b)
			if pm != "" {
				obs = "panic"
				p.Panic = pm
			}
		}
		vlib.Rec.Case("channel cli "+spec, true, []string{"position:channel", "form:cli"}, func() interface{} { return desc })
		if obs == "panic" {
			report(t, "channel-cli-panic", desc, "panic: "+p.Panic)
		} else if strings.HasPrefix(spec, "ssh->") {
			want := fmt.Sprintf("name=%q banner=chan", "ssh")
			if obs != want {
				report(t, "channel-cli-documented-form", desc, fmt.Sprintf("documented --channel form %q must give a channel 'ssh' reaching the target, observed %s (err %v)", spec, obs, p.Err))
			}
		} else if obs != "parse-error" && !strings.Contains(obs, "banner=chan") {
			report(t, "channel-cli-silently-wrong", desc, fmt.Sprintf("--channel %q is accepted but does not lead to the given address: %s", spec, obs))
		}
	}
}

// ---- strings near the documented ones: parsers never crash ---------------------------------------------------------

func TestNeighbourStrings(t *testing.T) {
	schemes := []string{"tcp", "tcp+tls", "unix", "unix+tls", "unixpacket", "http", "https", "ws", "wss", "udp", "unixgram", "dns", "dns+udp", "dns+tcp", "stdin", "stdin+tls", "stdio", "socks", "ftp", ""}
	rapid.Check(t, func(rt *rapid.T) {
		s := schemes[rapid.IntRange(0, len(schemes)-1).Draw(rt, "scheme")]
		switch rapid.IntRange(0, 4).Draw(rt, "schemeMut") {
		case 0:
			s = strings.ToUpper(s)
		case 1:
			s = s + []string{"+tls", "+ssl", "4", "6", "+", "+tls+tls", "s"}[rapid.IntRange(0, 6).Draw(rt, "suffix")]
		case 2:
			if len(s) > 1 {
				i := rapid.IntRange(0, len(s)-2).Draw(rt, "swap")
				b := []byte(s)
				b[i], b[i+1] = b[i+1], b[i]
				s = string(b)
			}
		}
		sep := []string{"://", "://", "://", ":", ":/", "//", ""}[rapid.IntRange(0, 6).Draw(rt, "sep")]
		rest := []string{"127.0.0.1:1", "127.0.0.1", ":1", "", "localhost:99999", "[::1]:1", "/abs/path.sock", "rel.sock", "127.0.0.1:1/ws/all?x=1", "user:pw@127.0.0.1:1", "%zz", " 127.0.0.1:1 ", "a~b", "127.0.0.1:1~"}[rapid.IntRange(0, 13).Draw(rt, "rest")]
		address := s + sep + rest
		// values as they arrive from shell scripts and environment files: padded, or with a line end
		pad := []string{"", "", "", " ", "\t", "\n", "\r\n"}
		address = pad[rapid.IntRange(0, 6).Draw(rt, "padBefore")] + address + pad[rapid.IntRange(0, 6).Draw(rt, "padAfter")]
		pos := rapid.IntRange(0, 6).Draw(rt, "position")
		var p parsed
		name := ""
		switch pos {
		case 0:
			name = "server-yaml"
			p = parseYAML("server:\n  servers:\n    - address: "+yamlQuote(address)+"\n", "server")
		case 1:
			name = "server-json"
			b, _ := json.Marshal([]map[string]interface{}{{"address": address}})
			p = parseArgs([]string{"server", "--server", string(b)})
		case 2:
			name = "channel-yaml"
			p = parseYAML("server:\n  channels:\n    - name: x\n      address: "+yamlQuote(address)+"\n", "server")
		case 3:
			name = "upstream-cli"
			p = parseArgs([]string{"client", "--upstream", address})
		case 4:
			name = "listener-cli"
			p = parseArgs([]string{"client", "--upstream", "tcp://127.0.0.1:9", "--listen", "data~" + address})
		case 5:
			// the command-line form of a channel: <name>-><protocol>:<address>
			name = "channel-cli"
			spec := "x->" + address
			if rapid.Bool().Draw(rt, "padWholeSpec") {
				spec = pad[rapid.IntRange(0, 6).Draw(rt, "specPadBefore")] + "x->" + strings.TrimSpace(address) + pad[rapid.IntRange(0, 6).Draw(rt, "specPadAfter")]
			}
			desc0 := spec
			address = desc0
			p = parseArgs([]string{"server", "--server", "[{\"address\":\"tcp://127.0.0.1:1\"}]", "--channel", spec})
		default:
			name = "listener-cli-whole"
			p = parseArgs([]string{"client", "--upstream", "tcp://127.0.0.1:9", "--listen", pad[rapid.IntRange(0, 6).Draw(rt, "lpad")] + "data~" + strings.TrimSpace(address)})
		}
		outcome := "accepted"
		if p.Err != nil {
			outcome = "error"
		}
		if p.Panic != "" {
			outcome = "panic"
		}
		desc := map[string]interface{}{"position": name, "address": address}
		vlib.Rec.Case(name+"|"+address, true, []string{"neighbour", "position:" + name, "outcome:" + outcome}, func() interface{} { return desc })
		if p.Panic != "" {
			sig := "neighbour-panic-" + name
			if vlib.IsKnown("C18", sig) {
				vlib.Rec.Known(sig, desc)
				return
			}
			desc["property"], desc["problem"], desc["signature"] = "C18", "parser panicked: "+p.Panic, sig
			vlib.Rec.Violation(desc)
			rt.Fatalf("C18 [%s] address %q: parser panicked: %s", sig, address, p.Panic)
		}
	})
}

// ---- the YAML form's decoding itself -------------------------------------------------------------------------------

var yamlNoted int

// noteYAMLNondeterminism records that repeated parses of one text disagreed.
func noteYAMLNondeterminism(text string, fingerprints []string) {
	yamlNoted++
	c := map[string]interface{}{"position": "yaml-decoding", "config_text": text, "results_of_three_parses": fingerprints}
	report(nil, "yaml-decode-nondeterministic", c, "three parses of the same configuration text gave different configurations")
}

// TestYAMLDecodeIsAFunctionOfTheText: whatever form a configuration is given in, it has one meaning. A server
// configuration with an inline certificate (a YAML literal block, as the documentation shows it) is parsed by the real
// option parser many times; every parse must give the same servers and channels.
func TestYAMLDecodeIsAFunctionOfTheText(t *testing.T) {
	n := vlib.Pick(30000, 150000)
	address, _, _ := serverAddress("tcp")
	text, _ := serverConfigText("yaml", address)
	first := ""
	deviating := 0
	var sample []string
	for i := 0; i < n; i++ {
		p := parseYAMLOnce(text, "server")
		fp := p.fingerprint()
		if first == "" {
			first = fp
		} else if fp != first {
			deviating++
			if len(sample) < 3 {
				sample = append(sample, fp)
			}
		}
	}
	d := map[string]interface{}{"position": "yaml-decoding", "parses": n, "deviating": deviating}
	vlib.Rec.Case(fmt.Sprintf("yaml-decode %d", n), true, []string{"position:yaml-decoding", fmt.Sprintf("deviating:%v", deviating > 0)}, func() interface{} { return d })
	if deviating > 0 {
		d["config_text"] = text
		d["usual_result"] = first
		d["deviating_results"] = sample
		report(t, "yaml-decode-nondeterministic", d, fmt.Sprintf("%d of %d parses of the same server configuration text (inline certificate as a literal block) gave a different configuration, e.g. %s instead of %s", deviating, n, sample[0], first))
	}
}

// ---- spellings of one transport against a real server -------------------------------------------------------------

// TestUpstreamSpellingsMeanTheSameTransport: ws is documented as another spelling of http and wss of https. A client
// whose upstream is spelled either way, against the same real server (which has a certificate, so the plain websocket
// offers StartTLS and the TLS websocket is encrypted from the start), must end up with the same session: established,
// with the same security the client reports, and with the application payload invisible to an observer on the carrier.
func TestUpstreamSpellingsMeanTheSameTransport(t *testing.T) {
	type observation struct {
		Established bool   `json:"established"`
		Secure      bool   `json:"client_reports_secure"`
		Tech        string `json:"security"`
		Clear       bool   `json:"payload_visible_on_the_carrier"`
	}
	marker := []byte("verif-c18-spelling-marker-0123456789")
	observe := func(carrier, spelling string, mustSecure bool) (observation, bool) {
		tgt := vlib.NewTarget("data", vlib.EchoHandler)
		defer tgt.Close()
		kp := vlib.ServerCertFor("match", "localhost")
		p, err := vlib.StartPair(vlib.PairConfig{Carrier: carrier, ClientScheme: spelling, ServerCert: &kp, ClientInsecure: true, ViaRelay: true,
			MustSecure: mustSecure, HostSpelling: "localhost",
			Channels:  []vlib.ChannelSpec{{Name: "data", Target: tgt.URL()}},
			Listeners: []vlib.ListenerSpec{{Channel: "data"}}})
		if err != nil {
			if vlib.IsBindError(err) {
				vlib.Rec.Inconclusive("bind")
				return observation{}, false
			}
			t.Fatalf("pair start (%s as %q): %v", carrier, spelling, err)
		}
		defer p.Close()
		var o observation
		if c, err := p.Dial("data"); err == nil {
			c.SetDeadline(time.Now().Add(10 * time.Second))
			c.Write(marker)
			got, _ := vlib.ReadFullTimeout(c, len(marker), 10*time.Second)
			o.Established = bytes.Equal(got, marker)
			c.Close()
		}
		time.Sleep(20 * time.Millisecond)
		up, down, _ := p.WireRecorded()
		o.Clear = bytes.Contains(up, marker) || bytes.Contains(down, marker)
		if cc := vlib.ClientConnOf(p.Client.Upstream.Data[0]); cc != nil {
			o.Secure, o.Tech = cc.Secure(), cc.SecurityTech()
		}
		return o, true
	}
	for _, sp := range []struct{ carrier, alias string }{{vlib.CarHTTP, "ws"}, {vlib.CarHTTPS, "wss"}} {
		for _, must := range []bool{false, true} {
			canonical, ok1 := observe(sp.carrier, "", must)
			aliased, ok2 := observe(sp.carrier, sp.alias, must)
			if !ok1 || !ok2 {
				continue
			}
			desc := map[string]interface{}{"position": "upstream", "scheme": sp.alias, "same_as": sp.carrier, "client_requires_security": must, "canonical": canonical, "aliased": aliased}
			vlib.Rec.Case(fmt.Sprintf("spelling %s=%s must=%v", sp.alias, sp.carrier, must), true, []string{"position:upstream", "spelling-against-real-server", "scheme:" + sp.alias}, func() interface{} { return desc })
			msg := ""
			switch {
			case !canonical.Established || canonical.Clear:
				msg = fmt.Sprintf("%s upstream against a server with a certificate: %+v", sp.carrier, canonical)
			case aliased.Clear:
				msg = fmt.Sprintf("upstream spelled %s:// carried the payload in clear although the server offers TLS (%+v; spelled %s://: %+v)", sp.alias, aliased, sp.carrier, canonical)
			case aliased != canonical:
				msg = fmt.Sprintf("upstream spelled %s:// gives another session than the same address spelled %s://: %+v vs %+v", sp.alias, sp.carrier, aliased, canonical)
			}
			if msg != "" {
				report(t, "upstream-spelling="+sp.alias, desc, msg)
			}
		}
	}
}
