//go:build verif

package c18

import (
	"crypto/sha256"
	"encoding/json"
	"fmt"
	"os"
	"path/filepath"
	"strings"

	"github.com/bokysan/socketace/v2/internal/args"
	clientCmd "github.com/bokysan/socketace/v2/internal/commands/client"
	serverCmd "github.com/bokysan/socketace/v2/internal/commands/server"
	scFlags "github.com/bokysan/socketace/v2/internal/flags"
	"github.com/jessevdk/go-flags"
)

// parsed is what the real option parsers produced for one configuration text.
type parsed struct {
	Server *serverCmd.Command
	Client *clientCmd.Command
	Ran    string // command the parser wanted to execute
	Err    error
	Panic  string
}

// newParser assembles the go-flags parser exactly the way cmd/socketace/main.go does, with command execution
// intercepted.
func newParser(p *parsed) *flags.Parser {
	parser := flags.NewNamedParser("socketace", flags.HelpFlag)
	if _, err := parser.AddGroup("General", "General options", &args.General); err != nil {
		panic(err)
	}
	p.Server = serverCmd.NewCommand()
	p.Client = clientCmd.NewCommand()
	if _, err := parser.AddCommand("server", "Run the server", "", p.Server); err != nil {
		panic(err)
	}
	if _, err := parser.AddCommand("client", "Run the client", "", p.Client); err != nil {
		panic(err)
	}
	parser.CommandHandler = func(cmd flags.Commander, a []string) error {
		switch cmd.(type) {
		case *serverCmd.Command:
			p.Ran = "server"
		case *clientCmd.Command:
			p.Ran = "client"
		}
		return nil
	}
	args.General.ConfigurationFile = func(file string) error {
		args.General.ConfigurationFilePath = file
		return scFlags.NewYamlParser(parser).ParseFile(file)
	}
	return parser
}

// parseArgs runs the real command-line parser (argv without the program name).
func parseArgs(argv []string) (p parsed) {
	defer func() {
		if r := recover(); r != nil {
			p.Panic = fmt.Sprint(r)
		}
	}()
	parser := newParser(&p)
	_, p.Err = parser.ParseArgs(argv)
	return p
}

var yamlSeq int

// fingerprint summarises what a parse produced (used to compare repeated parses of the same text).
func (p parsed) fingerprint() string {
	var sb strings.Builder
	fmt.Fprintf(&sb, "err=%v panic=%q ran=%s", p.Err != nil, p.Panic, p.Ran)
	if p.Server != nil {
		fmt.Fprintf(&sb, " servers=%d channels=%d", len(p.Server.Servers), len(p.Server.Channels))
		for _, s := range p.Server.Servers {
			fmt.Fprintf(&sb, " %T:%v", s, s)
		}
		for _, c := range p.Server.Channels {
			fmt.Fprintf(&sb, " %T:%v", c, c)
		}
	}
	if p.Client != nil {
		fmt.Fprintf(&sb, " upstreams=%d listeners=%d", len(p.Client.Upstream.Data), len(p.Client.ListenList))
		for _, u := range p.Client.Upstream.Data {
			fmt.Fprintf(&sb, " %T:%v", u, u)
		}
		for _, l := range p.Client.ListenList {
			fmt.Fprintf(&sb, " %T:%v", l, l)
		}
	}
	// everything else the parse produced (certificates, endpoints, options): exported fields as JSON
	if p.Server != nil {
		if b, err := json.Marshal(p.Server); err == nil {
			fmt.Fprintf(&sb, " server=%x", sha256.Sum256(b))
		}
	}
	if p.Client != nil {
		if b, err := json.Marshal(p.Client); err == nil {
			fmt.Fprintf(&sb, " client=%x", sha256.Sum256(b))
		}
	}
	return sb.String()
}

// yamlDeviations counts parses of one text that differed from the other parses of the same text (known finding
// "yaml-decode-nondeterministic": the YAML library's decoding of a text is not a function of the text).
var yamlDeviations, yamlParses int

// parseYAML parses the text three times and returns the result the majority agrees on. A configuration text has one
// meaning; where repeated parses of the same bytes disagree, that is reported under its own signature instead of being
// misread as a property of the scheme under test.
func parseYAML(text, command string) parsed {
	var ps [3]parsed
	var fp [3]string
	for i := range ps {
		ps[i] = parseYAMLOnce(text, command)
		fp[i] = ps[i].fingerprint()
	}
	yamlParses += 3
	pick := 0
	switch {
	case fp[0] == fp[1] && fp[1] == fp[2]:
		return ps[0]
	case fp[0] == fp[1] || fp[0] == fp[2]:
		pick = 0
	case fp[1] == fp[2]:
		pick = 1
	}
	yamlDeviations++
	noteYAMLNondeterminism(text, fp[:])
	return ps[pick]
}

// parseYAMLOnce writes text to a config file and runs `socketace -c file <command>`.
func parseYAMLOnce(text, command string) parsed {
	yamlSeq++
	dir := os.Getenv("VERIF_RUNDIR")
	if dir == "" {
		dir = os.TempDir()
	}
	file := filepath.Join(dir, fmt.Sprintf("c18-%d-%d.yaml", os.Getpid(), yamlSeq))
	if err := os.WriteFile(file, []byte(text), 0o600); err != nil {
		return parsed{Err: err}
	}
	defer os.Remove(file)
	argv := []string{"-c", file, command}
	if command == "client" {
		// the client command requires --upstream on the command line unless the file supplied it; go-flags checks
		// "required" only for options not set, and the YAML bridge bypasses that bookkeeping: tolerate that error
	}
	return parseArgs(argv)
}

func yamlQuote(s string) string {
	b, _ := json.Marshal(s) // a JSON string is a valid YAML double-quoted scalar
	return string(b)
}

func indent(s, pad string) string {
	return pad + strings.ReplaceAll(strings.TrimRight(s, "\n"), "\n", "\n"+pad)
}
