//go:build verif

package c03

import (
	"bufio"
	"fmt"
	"net"
	"sort"
	"strings"
	"sync"
	"testing"
	"time"

	"github.com/bokysan/socketace/v2/internal/zzverif/vlib"
	"pgregory.net/rapid"
)

func TestMain(m *testing.M) { vlib.Main(m) }

// confusable channel names: case variants, prefixes, extensions, a name with a slash, the empty name
var names = []string{"a", "A", "ab", "a/b", "b", "ba", "echo", "Echo", "echo2", ""}

// extra requested names that are never configured
var extraRequests = []string{"unknown", "ls", "multistream/1.0.0", "ech", "ECHO", "a/", "/a"}

var kinds = []string{vlib.CarTCP, vlib.CarHTTP, vlib.CarUDP, vlib.CarStdio, vlib.CarDNS}

type endpoint struct {
	Path  string   `json:"path,omitempty"`
	Allow []string `json:"allow"`
}

type caseDesc struct {
	Kind      string     `json:"kind"`
	Table     []string   `json:"table"`
	Endpoints []endpoint `json:"endpoints"` // one for non-http kinds
	Use       int        `json:"use"`       // endpoint the client connects to
	Requests  []string   `json:"requests"`
}

func contains(l []string, s string) bool {
	for _, x := range l {
		if x == s {
			return true
		}
	}
	return false
}

// model: the set of names served on the endpoint in use; nil,false when the configuration is invalid (an
// allow-list naming an unknown channel is a configuration error: nothing may be served through it).
func model(d caseDesc) (served map[string]bool, valid bool) {
	for _, e := range d.Endpoints {
		for _, a := range e.Allow {
			if !contains(d.Table, a) {
				return nil, false
			}
		}
	}
	served = map[string]bool{}
	al := d.Endpoints[d.Use].Allow
	for _, n := range d.Table {
		if len(al) == 0 || contains(al, n) {
			served[n] = true
		}
	}
	return served, true
}

type world struct {
	pair    *vlib.Pair
	targets map[string]*vlib.Target
}

func accepts(w *world) map[string]int {
	m := map[string]int{}
	for n, t := range w.targets {
		m[n] = t.Accepts()
	}
	return m
}

// probe opens a logical connection requesting name and classifies the outcome.
func probe(w *world, name string, timeout time.Duration) (outcome string, detail string) {
	c, err := w.pair.Dial(name)
	if err != nil {
		return "dial-error", err.Error()
	}
	defer c.Close()
	c.SetDeadline(time.Now().Add(timeout))
	br := bufio.NewReader(c)
	line, err := br.ReadString('\n')
	if err != nil {
		if ne, ok := err.(net.Error); ok && ne.Timeout() {
			return "stalled", fmt.Sprintf("no banner and no refusal within %v (got %q)", timeout, line)
		}
		if line == "" {
			return "refused", err.Error()
		}
		return "garbled", fmt.Sprintf("partial banner %q then %v", line, err)
	}
	banner := strings.TrimSuffix(line, "\n")
	msg := []byte("probe-" + name + "-0123456789")
	if _, err := c.Write(msg); err != nil {
		return "garbled", "write after banner: " + err.Error()
	}
	got := make([]byte, len(msg))
	n := 0
	for n < len(got) {
		k, err := br.Read(got[n:])
		n += k
		if err != nil {
			return "garbled", fmt.Sprintf("echo after banner %q: %d of %d bytes, %v", banner, n, len(got), err)
		}
	}
	if string(got) != string(msg) {
		return "garbled", fmt.Sprintf("echo mismatch after banner %q", banner)
	}
	return "served:" + banner, ""
}

func runCase(d caseDesc) (problem string, inconclusive bool, configErr bool) {
	w := &world{targets: map[string]*vlib.Target{}}
	var chans []vlib.ChannelSpec
	for _, n := range d.Table {
		t := vlib.NewTarget("target["+n+"]", vlib.BannerEchoHandler)
		w.targets[n] = t
		defer t.Close()
		chans = append(chans, vlib.ChannelSpec{Name: n, Target: t.URL()})
	}
	cfg := vlib.PairConfig{Carrier: d.Kind, Channels: chans}
	if d.Kind == vlib.CarHTTP {
		for _, e := range d.Endpoints {
			cfg.HTTPEndpoints = append(cfg.HTTPEndpoints, vlib.EndpointSpec{Path: e.Path, Allow: e.Allow})
		}
		cfg.HTTPPath = d.Endpoints[d.Use].Path
	} else {
		cfg.AllowList = d.Endpoints[0].Allow
	}
	seen := map[string]bool{}
	for _, r := range d.Requests {
		if !seen[r] {
			seen[r] = true
			cfg.Listeners = append(cfg.Listeners, vlib.ListenerSpec{Channel: r})
		}
	}
	served, valid := model(d)
	var p *vlib.Pair
	var release func(bool)
	var err error
	if d.Kind == vlib.CarDNS {
		// never reuse: every case has its own configuration; the lock still serialises DNS servers
		p, release, err = vlib.SharedDNSPair(fmt.Sprintf("c03/%p", w), func() (*vlib.Pair, error) { return vlib.StartPair(cfg) })
	} else {
		p, err = vlib.StartPair(cfg)
		release = func(bool) {}
	}
	if err != nil {
		if vlib.IsBindError(err) {
			return "", true, false
		}
		if !valid {
			return "", false, true // configuration error reported at start-up: accepted outcome
		}
		return "start-up failed for a valid configuration: " + err.Error(), false, false
	}
	defer func() { release(true); p.Close() }()
	w.pair = p
	timeout := 10 * time.Second
	if d.Kind == vlib.CarDNS {
		timeout = 40 * time.Second
	}
	for _, r := range d.Requests {
		before := accepts(w)
		out, detail := probe(w, r, timeout)
		if out != "refused" {
			// nothing
		} else {
			time.Sleep(30 * time.Millisecond) // a late outbound connection would show up here
		}
		after := accepts(w)
		expectServed := valid && served[r]
		if expectServed {
			want := "served:target[" + r + "]"
			if out != want {
				return fmt.Sprintf("request %q on endpoint %d: expected %s, got %s (%s); log: %v", r, d.Use, want, out, detail, vlib.Tap.Tail(4)), false, false
			}
			for n := range w.targets {
				delta := after[n] - before[n]
				if n == r && delta != 1 {
					return fmt.Sprintf("request %q: target of %q accepted %d connections, want 1", r, n, delta), false, false
				}
				if n != r && delta != 0 {
					return fmt.Sprintf("request %q: target of OTHER channel %q accepted %d connections", r, n, delta), false, false
				}
			}
		} else {
			for n := range w.targets {
				if after[n] != before[n] {
					return fmt.Sprintf("request %q must be refused (served set %v, valid config %v) but target of %q accepted a connection; outcome %s", r, keys(served), valid, n, out), false, false
				}
			}
			if out != "refused" {
				return fmt.Sprintf("request %q must be refused (served set %v, valid config %v) but outcome was %s (%s); log: %v", r, keys(served), valid, out, detail, vlib.Tap.Tail(4)), false, false
			}
		}
	}
	// nothing may connect late either
	time.Sleep(50 * time.Millisecond)
	return "", false, false
}

func keys(m map[string]bool) []string {
	var k []string
	for x := range m {
		k = append(k, x)
	}
	sort.Strings(k)
	return k
}

func confusableWith(table []string, r string) bool {
	if contains(table, r) {
		return false
	}
	for _, n := range table {
		if strings.EqualFold(n, r) || (n != "" && r != "" && (strings.HasPrefix(n, r) || strings.HasPrefix(r, n))) {
			return true
		}
	}
	return false
}

func record(d caseDesc, configErr bool) {
	served, valid := model(d)
	nontrivial := false
	labels := []string{"kind:" + d.Kind, fmt.Sprintf("table:%d", len(d.Table))}
	for _, r := range d.Requests {
		switch {
		case valid && served[r]:
			labels = append(labels, "req:served")
		case contains(d.Table, r):
			labels = append(labels, "req:configured-but-unlisted")
			nontrivial = true
		case confusableWith(d.Table, r):
			labels = append(labels, "req:confusable")
			nontrivial = true
		default:
			labels = append(labels, "req:unknown")
		}
	}
	if !valid {
		labels = append(labels, "invalid-allow-list")
	}
	if configErr {
		labels = append(labels, "startup-error")
	}
	if len(d.Endpoints[d.Use].Allow) > 0 {
		labels = append(labels, "allow-list")
	}
	vlib.Rec.Case(fmt.Sprintf("%+v", d), nontrivial, labels, func() interface{} { return d })
}

func TestRouting(t *testing.T) {
	rapid.Check(t, func(rt *rapid.T) {
		nk := vlib.Pick(4, 5)
		d := caseDesc{Kind: kinds[rapid.IntRange(0, nk-1).Draw(rt, "kind")]}
		if d.Kind == vlib.CarDNS && rapid.IntRange(0, 3).Draw(rt, "dnsRare") != 0 {
			d.Kind = vlib.CarTCP
		}
		perm := rapid.Permutation(names).Draw(rt, "names")
		d.Table = append([]string{}, perm[:rapid.IntRange(1, 4).Draw(rt, "tableSize")]...)
		drawAllow := func(label string) []string {
			switch rapid.IntRange(0, 5).Draw(rt, label+"Mode") {
			case 0, 1:
				return nil
			case 2:
				// may name a channel that does not exist (configuration error)
				pool := append(append([]string{}, d.Table...), "unknown")
				k := rapid.IntRange(1, len(pool)).Draw(rt, label+"K")
				return append([]string{}, rapid.Permutation(pool).Draw(rt, label+"Perm")[:k]...)
			default:
				k := rapid.IntRange(1, len(d.Table)).Draw(rt, label+"K")
				return append([]string{}, rapid.Permutation(d.Table).Draw(rt, label+"Perm")[:k]...)
			}
		}
		if d.Kind == vlib.CarHTTP {
			n := rapid.IntRange(1, 3).Draw(rt, "paths")
			for i := 0; i < n; i++ {
				d.Endpoints = append(d.Endpoints, endpoint{Path: fmt.Sprintf("/ws/p%d", i), Allow: drawAllow(fmt.Sprintf("allow%d", i))})
			}
			d.Use = rapid.IntRange(0, n-1).Draw(rt, "use")
		} else {
			d.Endpoints = []endpoint{{Allow: drawAllow("allow")}}
		}
		// requested names: the configured ones, their confusables and unknown ones
		pool := append(append([]string{}, names...), extraRequests...)
		nr := rapid.IntRange(2, 6).Draw(rt, "nreq")
		for i := 0; i < nr; i++ {
			if rapid.IntRange(0, 2).Draw(rt, "fromTable") == 0 {
				d.Requests = append(d.Requests, d.Table[rapid.IntRange(0, len(d.Table)-1).Draw(rt, "t")])
			} else {
				d.Requests = append(d.Requests, pool[rapid.IntRange(0, len(pool)-1).Draw(rt, "p")])
			}
		}
		vlib.Tap.Reset()
		problem, inconclusive, configErr := runCase(d)
		if inconclusive {
			vlib.Rec.Inconclusive("bind")
			return
		}
		record(d, configErr)
		if problem != "" {
			vlib.Rec.Violation(map[string]interface{}{"property": "C03", "case": d, "problem": problem})
			rt.Fatalf("C03 %+v: %s", d, problem)
		}
	})
}

// TestExhaustiveSmallTables enumerates, for the socket server kind, every table of one or two names from the
// confusable set, every allow-list over the table (plus empty), and every requested name of the pool.
func TestExhaustiveSmallTables(t *testing.T) {
	if !vlib.Thorough() {
		// quick tier: a fixed slice of the space (tables of size 1), still complete for that slice
	}
	shard, shards := vlib.Shard()
	pool := append(append([]string{}, names...), extraRequests...)
	var tables [][]string
	for i := range names {
		tables = append(tables, []string{names[i]})
	}
	if vlib.Thorough() {
		for i := range names {
			for j := i + 1; j < len(names); j++ {
				tables = append(tables, []string{names[i], names[j]})
			}
		}
	}
	idx := 0
	complete := true
	for _, tb := range tables {
		var allows [][]string
		allows = append(allows, nil)
		allows = append(allows, []string{tb[0]})
		if len(tb) == 2 {
			allows = append(allows, []string{tb[1]}, []string{tb[0], tb[1]})
		}
		for _, al := range allows {
			idx++
			if idx%shards != shard {
				continue
			}
			d := caseDesc{Kind: vlib.CarTCP, Table: tb, Endpoints: []endpoint{{Allow: al}}, Requests: pool}
			problem, inconclusive, configErr := runCase(d)
			if inconclusive {
				complete = false
				vlib.Rec.Inconclusive("bind")
				continue
			}
			record(d, configErr)
			if problem != "" {
				vlib.Rec.Violation(map[string]interface{}{"property": "C03", "case": d, "problem": problem})
				t.Fatalf("C03 %+v: %s", d, problem)
			}
		}
	}
	space := "socket server, tables of 1 name from the confusable set x allow-lists x all requested names"
	if vlib.Thorough() {
		space = "socket server, tables of 1-2 names from the confusable set x allow-lists x all requested names (union over shards)"
	}
	vlib.Rec.Exhaustive(space, complete)
}

// TestHTTPPathAllowLists enumerates, for an HTTP server with two (thorough: also three) websocket paths over a table of
// two channels, every combination of per-path allow-lists {all, [x], [y], [x,y]} and every path the client may use:
// what a path serves must depend on that path's own list only. (The random draws above reach a server with several
// paths, differing lists, a non-last path in use and a request that tells the lists apart only rarely.)
func TestHTTPPathAllowLists(t *testing.T) {
	shard, shards := vlib.Shard()
	tb := []string{"a", "echo"}
	lists := [][]string{nil, {"a"}, {"echo"}, {"a", "echo"}}
	idx := 0
	run := func(eps []endpoint) {
		for use := range eps {
			idx++
			if idx%shards != shard {
				continue
			}
			d := caseDesc{Kind: vlib.CarHTTP, Table: tb, Endpoints: eps, Use: use, Requests: []string{"a", "echo", "A", "a"}}
			problem, inconclusive, configErr := runCase(d)
			if inconclusive {
				vlib.Rec.Inconclusive("bind")
				continue
			}
			record(d, configErr)
			if problem != "" {
				vlib.Rec.Violation(map[string]interface{}{"property": "C03", "case": d, "problem": problem})
				t.Fatalf("C03 %+v: %s", d, problem)
			}
		}
	}
	for _, l0 := range lists {
		for _, l1 := range lists {
			run([]endpoint{{Path: "/ws/p0", Allow: l0}, {Path: "/ws/p1", Allow: l1}})
			if vlib.Thorough() {
				for _, l2 := range lists {
					run([]endpoint{{Path: "/ws/p0", Allow: l0}, {Path: "/ws/p1", Allow: l1}, {Path: "/ws/p2", Allow: l2}})
				}
			}
		}
	}
}

// TestConcurrentRequestsOnFreshSessions: routing must not depend on what else happens on the session. A server with twelve
// channels (eight of them on the allow-list) is asked, by a fresh client each round, for eight drawn names at the same
// instant - the first streams of a new physical session. Every allowed name must reach its own target, every other
// name must be refused, in every round.
func TestConcurrentRequestsOnFreshSessions(t *testing.T) {
	rounds := vlib.Pick(400, 6000)
	var names, allow []string
	targets := map[string]*vlib.Target{}
	var chans []vlib.ChannelSpec
	for i := 0; i < 12; i++ {
		n := fmt.Sprintf("c%02d", i)
		names = append(names, n)
		if i%3 != 2 {
			allow = append(allow, n)
		}
		tg := vlib.NewTarget("target["+n+"]", vlib.BannerEchoHandler)
		targets[n] = tg
		defer tg.Close()
		chans = append(chans, vlib.ChannelSpec{Name: n, Target: tg.URL()})
	}
	p, err := vlib.StartPair(vlib.PairConfig{Carrier: vlib.CarTCP, Channels: chans, AllowList: allow, Listeners: []vlib.ListenerSpec{{Channel: names[0]}}})
	if err != nil {
		if vlib.IsBindError(err) {
			vlib.Rec.Inconclusive("bind")
			return
		}
		t.Fatalf("pair start: %v", err)
	}
	defer p.Close()
	allowed := map[string]bool{}
	for _, n := range allow {
		allowed[n] = true
	}
	for round := 0; round < rounds; round++ {
		// eight names per round, chosen by a fixed stride so that every round differs and all names take part
		var ask []string
		for k := 0; k < 8; k++ {
			ask = append(ask, names[(round*5+k*7)%len(names)])
		}
		ec, err := p.AddClient(names...)
		if err != nil {
			vlib.Rec.Inconclusive("extra client")
			continue
		}
		outcomes := make([]string, len(ask))
		var wg sync.WaitGroup
		start := make(chan struct{})
		for i, n := range ask {
			wg.Add(1)
			go func(i int, n string) {
				defer wg.Done()
				<-start
				c, err := ec.Dial(n)
				if err != nil {
					outcomes[i] = "dial-error " + err.Error()
					return
				}
				defer c.Close()
				c.SetDeadline(time.Now().Add(10 * time.Second))
				line, err := bufio.NewReader(c).ReadString('\n')
				switch {
				case err == nil:
					outcomes[i] = "served:" + strings.TrimSuffix(line, "\n")
				case line == "":
					if ne, ok := err.(net.Error); ok && ne.Timeout() {
						outcomes[i] = "stalled"
					} else {
						outcomes[i] = "refused"
					}
				default:
					outcomes[i] = "garbled " + line
				}
			}(i, n)
		}
		close(start)
		wg.Wait()
		ec.Close()
		if round%20 == 0 {
			vlib.Rec.Case(fmt.Sprintf("fresh-session round %d %v", round, ask), true, []string{"kind:tcp", "concurrent-requests-on-fresh-session"}, func() interface{} {
				return map[string]interface{}{"round": round, "asked_at_the_same_instant": ask, "outcomes": outcomes}
			})
		}
		for i, n := range ask {
			want := "refused"
			if allowed[n] {
				want = "served:target[" + n + "]"
			}
			if outcomes[i] != want {
				msg := fmt.Sprintf("round %d: eight requests %v at the same instant on a fresh session; request %d for %q: expected %s, got %s", round, ask, i, n, want, outcomes[i])
				vlib.Rec.Violation(map[string]interface{}{"property": "C03", "test": "concurrent-requests-on-fresh-session", "round": round, "asked": ask, "outcomes": outcomes, "problem": msg})
				t.Fatalf("C03 %s", msg)
			}
		}
	}
	vlib.Rec.Extra("fresh_session_rounds", rounds)
}
