//go:build verif

package dns

import (
	"fmt"
	"net"
	"time"

	"github.com/bokysan/socketace/v2/internal/streams/dns/util"
	"github.com/bokysan/socketace/v2/internal/util/enc"
	vlib "github.com/bokysan/socketace/v2/internal/zzverif/vcore"
)

const domain = "example.org"

type session struct {
	srv    *ServerDnsListener
	comm   *simClient
	client *ClientDnsConnection
	user   *userConnection
	opts   sessionOptions
}

// sessionOptions is what a session negotiates after its version handshake, the way the client's own handshake does it
// (codec switches with SetEncodingUpstream / SetEncodingDownstream, then the downstream fragment size). The zero value
// keeps Base32 both ways and asks for 200-byte fragments.
type sessionOptions struct {
	Up, Down enc.Encoder
	Frag     uint32
}

func (o sessionOptions) String() string {
	n := func(e enc.Encoder) string {
		if e == nil {
			return "Base32"
		}
		return e.Name()
	}
	f := o.Frag
	if f == 0 {
		f = 200
	}
	return fmt.Sprintf("up=%s down=%s frag=%d", n(o.Up), n(o.Down), f)
}

func openSession(ss *simServer, srv *ServerDnsListener, addr net.Addr) (*session, error) {
	return openSessionWith(ss, srv, addr, sessionOptions{})
}

func openSessionWith(ss *simServer, srv *ServerDnsListener, addr net.Addr, opts sessionOptions) (*session, error) {
	s, err := openSessionNoAccept(ss, srv, addr)
	if err != nil {
		return nil, err
	}
	s.opts = opts
	c, err := srv.Accept()
	if err != nil {
		return nil, err
	}
	s.user = c.(*userConnection)
	return s, s.finishSetup()
}

// openSessionNoAccept performs the client's version handshake only (used for concurrent handshakes, where the caller
// matches accepted server-side connections to clients by identifier).
func openSessionNoAccept(ss *simServer, srv *ServerDnsListener, addr net.Addr) (*session, error) {
	comm := newSimClient(ss, addr)
	client, err := NewClientDnsConnection(domain, comm)
	if err != nil {
		return nil, err
	}
	qt := util.QueryTypeNull
	client.Serializer.Upstream.QueryType = &qt
	client.Serializer.Upstream.Encoder = enc.Base32Encoding
	client.Serializer.Downstream.Encoder = enc.Base32Encoding
	if err := client.VersionHandshake(); err != nil {
		return nil, err
	}
	return &session{srv: srv, comm: comm, client: client}, nil
}

func (s *session) finishSetup() error {
	if s.opts.Up != nil {
		s.client.Serializer.Upstream.Encoder = s.opts.Up
		_ = s.client.SetEncodingUpstream()
		if s.client.Serializer.Upstream.Encoder != s.opts.Up {
			return fmt.Errorf("the server did not accept the switch of the upstream codec to %s", s.opts.Up.Name())
		}
	}
	if s.opts.Down != nil {
		s.client.Serializer.Downstream.Encoder = s.opts.Down
		_ = s.client.SetEncodingDownstream()
		if s.client.Serializer.Downstream.Encoder != s.opts.Down {
			return fmt.Errorf("the server did not accept the switch of the downstream codec to %s", s.opts.Down.Name())
		}
	}
	s.client.Serializer.Upstream.FragmentSize = 100
	frag := s.opts.Frag
	if frag == 0 {
		frag = 200
	}
	return s.client.SwitchFragmentSize(frag)
}

// transfer moves n bytes each way through the established session and checks them.
func (s *session) transfer(tag uint64, n int) string {
	up := vlib.PRF(tag, 0, n)
	down := vlib.PRF(tag+1, 0, n)
	done := make(chan error, 1)
	go func() { _, err := s.user.Write(down); done <- err }()
	if _, err := s.client.Write(up); err != nil {
		return "client write: " + err.Error()
	}
	got := make([]byte, 0, n)
	buf := make([]byte, 4096)
	deadline := time.Now().Add(10 * time.Second)
	var srvErr error
	srvDone := false
	for (len(got) < n || !srvDone) && time.Now().Before(deadline) {
		s.client.SendAndReceive(s.client.out.NextChunk())
		for s.client.in.HasData() {
			k, _ := s.client.in.Read(buf)
			got = append(got, buf[:k]...)
		}
		select {
		case srvErr = <-done:
			srvDone = true
		default:
		}
	}
	if !srvDone {
		return fmt.Sprintf("server write did not complete (client has %d of %d bytes)", len(got), n)
	}
	if srvErr != nil {
		return "server write: " + srvErr.Error()
	}
	rec := make([]byte, 0, n)
	for s.user.in.HasData() {
		k, _ := s.user.in.Read(buf)
		rec = append(rec, buf[:k]...)
	}
	if d := vlib.FirstDiff(rec, up); d != -1 {
		return fmt.Sprintf("upstream bytes differ at %d (%d of %d)", d, len(rec), n)
	}
	if d := vlib.FirstDiff(got, down); d != -1 {
		return fmt.Sprintf("downstream bytes differ at %d (%d of %d)", d, len(got), n)
	}
	return ""
}

// exchange pushes data both ways over the negotiated tunnel (the client's own poll goroutine is running).
func exchange(client *ClientDnsConnection, user *userConnection, up, down []byte, bound time.Duration) string {
	errc := make(chan string, 4)
	go func() {
		if _, err := client.Write(up); err != nil {
			errc <- "client write: " + err.Error()
			return
		}
		errc <- ""
	}()
	go func() {
		if _, err := user.Write(down); err != nil {
			errc <- "server write: " + err.Error()
			return
		}
		errc <- ""
	}()
	read := func(c net.Conn, n int, who string) {
		got := make([]byte, 0, n)
		buf := make([]byte, 16384)
		for len(got) < n {
			k, err := c.Read(buf)
			got = append(got, buf[:k]...)
			if err != nil {
				errc <- fmt.Sprintf("%s read stopped after %d of %d bytes: %v", who, len(got), n, err)
				return
			}
		}
		want := up
		if who == "client" {
			want = down
		}
		if d := vlib.FirstDiff(got, want); d != -1 {
			errc <- fmt.Sprintf("%s received different bytes (first difference at %d of %d)", who, d, n)
			return
		}
		errc <- ""
	}
	go read(user, len(up), "server")
	go read(client, len(down), "client")
	timeout := time.After(bound)
	for i := 0; i < 4; i++ {
		select {
		case e := <-errc:
			if e != "" {
				return e
			}
		case <-timeout:
			return fmt.Sprintf("transfer of %d bytes up / %d bytes down not complete after %v", len(up), len(down), bound)
		}
	}
	return ""
}
