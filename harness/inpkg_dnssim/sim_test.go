//go:build verif

package dns

import (
	"fmt"
	"net"
	"strings"
	"sync"
	"time"

	mdns "github.com/miekg/dns"
)

// Simulated DNS path: implementations of ClientCommunicator / ServerCommunicator that pass every message through
// real Pack()/Unpack() and apply a generated fate (per exchange) and a path behaviour (per path).

type fate int

const (
	fateDelivered fate = iota
	fateQueryLost
	fateAnswerLost
	fateQueryDuplicated
	fateOldQueryReplayed
)

func (f fate) String() string {
	return [...]string{"delivered", "query-lost", "answer-lost", "query-duplicated", "old-query-replayed"}[f]
}

// realTimeoutError is the very error value shape the real NetConnectionClientCommunicator produces for a lost
// datagram (obtained once by querying a black-hole UDP socket with a 1 ms time-out).
var (
	timeoutOnce sync.Once
	timeoutErr  error
)

func realTimeoutError() error {
	timeoutOnce.Do(func() {
		pc, err := net.ListenPacket("udp", "127.0.0.1:0")
		if err != nil {
			panic(err)
		}
		defer pc.Close()
		comm, err := NewNetConnectionClientCommunicator(&ClientConfig{Servers: AddressList{pc.LocalAddr()}})
		if err != nil {
			panic(err)
		}
		defer comm.Close()
		m := &mdns.Msg{}
		m.SetQuestion("blackhole.example.org.", mdns.TypeA)
		d := time.Millisecond
		_, _, timeoutErr = comm.SendAndReceive(m, &d)
		if timeoutErr == nil {
			panic("black-hole query did not time out")
		}
	})
	return timeoutErr
}

type simServer struct {
	mu     sync.Mutex
	closed bool
	onMsg  OnMessage
}

func (s *simServer) Close() error               { s.closed = true; return nil }
func (s *simServer) Closed() bool               { return s.closed }
func (s *simServer) RegisterAccept(f OnMessage) { s.onMsg = f }
func (s *simServer) LocalAddr() net.Addr        { return &net.UDPAddr{IP: net.IPv4(127, 0, 0, 1), Port: 53} }

// pathBehaviour describes what the resolvers between client and server do to messages.
type pathBehaviour struct {
	Case       string          // "", lower, upper, random
	SevenBit   string          // "", servfail, mangle  (names with bytes >= 0x80)
	Answered   map[uint16]bool // nil = all record types answered
	SizeLimit  int             // 0 = none; answers whose packed size exceeds it are dropped
	Truncate   bool            // with SizeLimit: oversize answers lose trailing records and get the TC bit instead of being dropped
	StripEdns0 bool
	rnd        uint64
}

func (p *pathBehaviour) transparent() bool {
	return p == nil || (p.Case == "" && p.SevenBit == "" && p.Answered == nil && p.SizeLimit == 0 && !p.StripEdns0)
}

type simClient struct {
	srv       *simServer
	addr      net.Addr
	closed    bool
	path      *pathBehaviour
	nextFate  func(q *mdns.Msg) fate // nil = always delivered
	history   []*mdns.Msg
	replayAge func(n int) int // picks how far back a replayed query lies (1..n)

	mu        sync.Mutex
	Exchanges int
	Queries   int // queries that reached the server
	lastQ     string
	panicMsg  string
}

func newSimClient(srv *simServer, addr net.Addr) *simClient {
	return &simClient{srv: srv, addr: addr}
}

func (c *simClient) Close() error                       { c.closed = true; return nil }
func (c *simClient) Closed() bool                       { return c.closed }
func (c *simClient) LocalAddr() net.Addr                { return c.addr }
func (c *simClient) RemoteAddr() net.Addr               { return &net.UDPAddr{IP: net.IPv4(127, 0, 0, 1), Port: 53} }
func (c *simClient) SetDeadline(t time.Time) error      { return nil }
func (c *simClient) SetReadDeadline(t time.Time) error  { return nil }
func (c *simClient) SetWriteDeadline(t time.Time) error { return nil }

func wire(m *mdns.Msg) (*mdns.Msg, int, error) {
	b, err := m.Pack()
	if err != nil {
		return nil, 0, err
	}
	out := &mdns.Msg{}
	if err := out.Unpack(b); err != nil {
		return nil, len(b), err
	}
	return out, len(b), nil
}

// deliver hands a (wire-decoded) query to the server's message handler.
func (c *simClient) deliver(q *mdns.Msg) (resp *mdns.Msg, err error) {
	c.mu.Lock()
	c.Queries++
	c.mu.Unlock()
	defer func() {
		if r := recover(); r != nil {
			c.panicMsg = fmt.Sprintf("server message handler panicked: %v", r)
			err = fmt.Errorf("%s", c.panicMsg)
		}
	}()
	return c.srv.onMsg(q, c.addr)
}

func (c *simClient) applyQueryPath(q *mdns.Msg) (drop bool, servfail bool) {
	p := c.path
	if p.transparent() {
		return false, false
	}
	for i := range q.Question {
		name := q.Question[i].Name
		switch p.Case {
		case "lower":
			name = strings.ToLower(name)
		case "upper":
			name = strings.ToUpper(name)
		case "random":
			b := []byte(name)
			for k := range b {
				p.rnd = p.rnd*6364136223846793005 + 1442695040888963407
				if p.rnd>>62 == 0 {
					if b[k] >= 'a' && b[k] <= 'z' {
						b[k] -= 32
					} else if b[k] >= 'A' && b[k] <= 'Z' {
						b[k] += 32
					}
				}
			}
			name = string(b)
		}
		if p.SevenBit != "" && strings.Contains(name, `\`) {
			// presentation format escapes bytes >= 0x7f (and < 0x21) as \DDD
			has8 := false
			for k := 0; k+3 < len(name); k++ {
				if name[k] == '\\' && name[k+1] >= '1' && name[k+1] <= '2' {
					has8 = true
				}
			}
			if has8 {
				if p.SevenBit == "servfail" {
					return false, true
				}
				// mangle: every escaped byte becomes '?'
				var sb strings.Builder
				for k := 0; k < len(name); k++ {
					if name[k] == '\\' && k+3 < len(name) && name[k+1] >= '0' && name[k+1] <= '9' {
						sb.WriteByte('?')
						k += 3
					} else {
						sb.WriteByte(name[k])
					}
				}
				name = sb.String()
			}
		}
		q.Question[i].Name = name
		if p.Answered != nil && !p.Answered[q.Question[i].Qtype] {
			return false, true
		}
	}
	if p.StripEdns0 {
		var extra []mdns.RR
		for _, rr := range q.Extra {
			if _, ok := rr.(*mdns.OPT); !ok {
				extra = append(extra, rr)
			}
		}
		q.Extra = extra
	}
	return false, false
}

// SendAndReceive is one exchange over the simulated path.
func (c *simClient) SendAndReceive(m *mdns.Msg, timeout *time.Duration) (*mdns.Msg, time.Duration, error) {
	c.mu.Lock()
	c.Exchanges++
	if len(m.Question) > 0 {
		c.lastQ = m.Question[0].Name
	}
	c.mu.Unlock()
	if c.closed {
		return nil, 0, fmt.Errorf("use of closed connection")
	}
	q, _, err := wire(m)
	if err != nil {
		return nil, 0, err
	}
	f := fateDelivered
	if c.nextFate != nil {
		f = c.nextFate(q)
	}
	_, servfail := c.applyQueryPath(q)
	if servfail {
		r := &mdns.Msg{}
		r.SetRcode(q, mdns.RcodeServerFailure)
		out, _, _ := wire(r)
		return out, time.Millisecond, nil
	}
	switch f {
	case fateQueryLost:
		return nil, 0, realTimeoutError()
	case fateOldQueryReplayed:
		if len(c.history) > 0 {
			age := 1
			if c.replayAge != nil {
				age = c.replayAge(len(c.history))
			}
			old := c.history[len(c.history)-age]
			c.deliver(old.Copy())
		}
	case fateQueryDuplicated:
		c.deliver(q.Copy())
	}
	c.history = append(c.history, q.Copy())
	if len(c.history) > 300 {
		c.history = c.history[len(c.history)-300:]
	}
	resp, err := c.deliver(q)
	if err != nil || resp == nil {
		// the real server communicator sends nothing back when the handler fails: the client times out
		return nil, 0, realTimeoutError()
	}
	if f == fateAnswerLost {
		return nil, 0, realTimeoutError()
	}
	out, size, err := wire(resp)
	if err != nil {
		// an answer that cannot be packed is never sent
		return nil, 0, realTimeoutError()
	}
	if c.path != nil && c.path.SizeLimit > 0 && size > c.path.SizeLimit {
		if !c.path.Truncate {
			return nil, 0, realTimeoutError()
		}
		// the standard way of limiting answer size: leave trailing records out until the message fits, set TC
		cp := *resp // shallow copy: the records themselves are not modified
		cut := &cp
		cut.Answer = append([]mdns.RR(nil), resp.Answer...)
		cut.Truncated = true
		for len(cut.Answer) > 0 {
			cut.Answer = cut.Answer[:len(cut.Answer)-1]
			o2, sz, err := wire(cut)
			if err == nil && sz <= c.path.SizeLimit {
				return o2, time.Millisecond, nil
			}
		}
		return nil, 0, realTimeoutError()
	}
	return out, time.Millisecond, nil
}
