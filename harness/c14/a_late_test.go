//go:build verif

package c14

import (
	"fmt"
	"net"
	"runtime/debug"
	"sync"
	"testing"
	"time"

	"github.com/bokysan/socketace/v2/internal/zzverif/vlib"
)

// (This file sorts first so that the test runs before the others of the package: the keep-alive of the datagram
// sessions that TestManySessions leaves behind would otherwise lower the footprint while this test measures it.)
//
// TestTargetThatAnswersLate: six logical connections ask for a channel whose target does not answer the connection
// attempt (neither accepted nor refused); each application waits until its connection is ended for it, 14 s at most,
// and closes. After 12 s the target starts answering, so the connection attempts still pending on the server complete
// with their next retransmission. However the server treated the waiting - patiently, or with a limit of its own -
// once all of that is over nothing of these six connections may remain: no goroutine, no socket to the target.
func TestTargetThatAnswersLate(t *testing.T) {
	stuck, err := vlib.NewStuckTarget()
	if err != nil {
		vlib.Rec.Inconclusive("no stuck target: " + err.Error())
		return
	}
	defer stuck.Close()
	tgt := vlib.NewTarget("data", vlib.EchoHandler)
	defer tgt.Close()
	p, err := vlib.StartPair(vlib.PairConfig{Carrier: vlib.CarTCP, ClientInsecure: true,
		Channels:  []vlib.ChannelSpec{{Name: "data", Target: tgt.URL()}, {Name: "slow", Target: stuck.URL()}},
		Listeners: []vlib.ListenerSpec{{Channel: "data"}, {Channel: "slow"}}})
	if err != nil {
		if vlib.IsBindError(err) {
			vlib.Rec.Inconclusive("bind")
			return
		}
		t.Fatalf("pair start: %v", err)
	}
	defer p.Close()
	defer debug.SetGCPercent(debug.SetGCPercent(-1))
	d := map[string]interface{}{"slow_connections": 6, "target_answers_after_s": 12, "applications_give_up_after_s": 14}
	fail := func(msg string) {
		vlib.Rec.Violation(map[string]interface{}{"property": "C14", "late_target": d, "problem": msg, "goroutines": vlib.GoroutineSummary(12), "descriptors": vlib.FDSummary(), "goroutine_dump": vlib.DumpGoroutines("c14-late")})
		t.Errorf("C14 %v: %s\ngoroutines: %v\ndescriptors: %v", d, msg, vlib.GoroutineSummary(12), vlib.FDSummary())
	}
	// warm-up: the physical session exists and works
	for i := 0; i < 3; i++ {
		c, err := p.Dial("data")
		if err != nil {
			fail("dial: " + err.Error())
			return
		}
		c.SetDeadline(time.Now().Add(10 * time.Second))
		c.Write([]byte("warm"))
		if got, _ := vlib.ReadFullTimeout(c, 4, 10*time.Second); string(got) != "warm" {
			c.Close()
			fail("warm-up connection did not echo")
			return
		}
		c.Close()
	}
	idle := vlib.Quiesce(10 * time.Second)
	t0 := time.Now()
	var wg sync.WaitGroup
	for i := 0; i < 6; i++ {
		wg.Add(1)
		go func() {
			defer wg.Done()
			c, err := p.Dial("slow")
			if err != nil {
				return
			}
			defer c.Close()
			c.Write([]byte("anybody there?"))
			c.SetReadDeadline(t0.Add(14 * time.Second))
			buf := make([]byte, 16)
			for {
				if _, err := c.Read(buf); err != nil {
					return
				}
			}
		}()
	}
	time.Sleep(time.Until(t0.Add(12 * time.Second)))
	stuck.Release()
	wg.Wait()
	// the last retransmission of a connection attempt made at t0 happens 15 s after it
	time.Sleep(time.Until(t0.Add(17 * time.Second)))
	limit := vlib.Footprint{Goroutines: idle.Goroutines + slack, FDs: idle.FDs + slack}
	after := vlib.QuiesceBelow(limit, 25*time.Second)
	d["idle"], d["after"] = idle.String(), after.String()
	vlib.Rec.Case("target-answers-late", true, []string{"target-answers-late"}, func() interface{} { return d })
	if after.Goroutines > limit.Goroutines || after.FDs > limit.FDs {
		fail(fmt.Sprintf("six connections to a target that answered late are over (applications closed, target answered and closed), the footprint %v stays above the idle footprint %v", after, idle))
	}
	// and the session still works
	if c, err := p.Dial("data"); err == nil {
		c.SetDeadline(time.Now().Add(10 * time.Second))
		c.Write([]byte("after"))
		if got, _ := vlib.ReadFullTimeout(c, 5, 10*time.Second); string(got) != "after" {
			fail("after the slow connections a connection to the working channel does not echo")
		}
		c.Close()
	}
	_ = net.IPv4len
}
