//go:build verif

package c14

import (
	"fmt"
	"io"
	"net"
	"os"
	"testing"
	"time"

	"github.com/bokysan/socketace/v2/internal/client/listener"
	"github.com/bokysan/socketace/v2/internal/client/upstream"
	clientCmd "github.com/bokysan/socketace/v2/internal/commands/client"
	"github.com/bokysan/socketace/v2/internal/socketace"
	"github.com/bokysan/socketace/v2/internal/util/addr"
	"github.com/bokysan/socketace/v2/internal/util/cert"
	"github.com/bokysan/socketace/v2/internal/version"
	"github.com/bokysan/socketace/v2/internal/zzverif/vlib"
)

func readHeaderBlock(c net.Conn) bool {
	var last4 [4]byte
	b := make([]byte, 1)
	for {
		if _, err := c.Read(b); err != nil {
			return false
		}
		last4 = [4]byte{last4[1], last4[2], last4[3], b[0]}
		if string(last4[:]) == "\r\n\r\n" {
			return true
		}
	}
}

// TestSessionsThatNeverComeUp: a physical session can also end before it exists - the upstream accepts the connection and
// falls silent at once, after its first answer, or inside StartTLS. Each local connection that needed that session must be
// given up (its application connection closed) within the negotiation time limit (an exported variable, lowered to 1 s),
// and nothing may remain of it: the client's footprint after six such connections equals the one before.
func TestSessionsThatNeverComeUp(t *testing.T) {
	old := socketace.HandshakeTimeout
	socketace.HandshakeTimeout = time.Second
	defer func() { socketace.HandshakeTimeout = old }()
	for _, point := range []string{"silent-from-the-start", "silent-after-first-answer", "silent-inside-starttls"} {
		func() {
			ln, err := net.Listen("tcp", "127.0.0.1:0")
			if err != nil {
				vlib.Rec.Inconclusive("listen")
				return
			}
			defer ln.Close()
			var held []net.Conn
			defer func() {
				for _, c := range held {
					c.Close()
				}
			}()
			go func() {
				for {
					c, err := ln.Accept()
					if err != nil {
						return
					}
					held = append(held, c)
					go func(c net.Conn) {
						defer c.Close() // once the client has given the connection up
						if point == "silent-from-the-start" {
							io.Copy(io.Discard, c)
							return
						}
						if !readHeaderBlock(c) {
							return
						}
						resp := "HTTP/1.1 200 OK\r\nServer: scripted\r\nProtocol-Version: " + version.ProtocolVersion + "\r\n"
						if point == "silent-inside-starttls" {
							resp += "Capabilities: StartTLS\r\n"
						}
						c.Write([]byte(resp + "\r\n"))
						if point == "silent-inside-starttls" {
							if !readHeaderBlock(c) {
								return
							}
							c.Write([]byte("HTTP/1.1 101 Switching Protocols\r\nServer: scripted\r\nConnection: upgrade\r\nUpgrade: socketace/" + version.ProtocolVersion + "\r\n\r\n"))
						}
						io.Copy(io.Discard, c)
					}(c)
				}
			}()
			lport := vlib.Port()
			cli := &clientCmd.Command{
				ClientConfig: cert.ClientConfig{InsecureSkipVerify: true},
				Upstream:     upstream.Upstreams{Data: []upstream.Upstream{&upstream.Socket{Address: addr.MustParseAddress("tcp://" + ln.Addr().String())}}},
				ListenList: listener.Listeners{&listener.SocketListener{AbstractListener: listener.AbstractListener{ProtoName: addr.ProtoName{Name: "data"},
					Address: addr.MustParseAddress(fmt.Sprintf("tcp://127.0.0.1:%d", lport))}}},
			}
			if err := cli.Startup(make(chan os.Signal, 1)); err != nil {
				vlib.Rec.Inconclusive("client start")
				return
			}
			defer func() { defer func() { recover() }(); cli.Shutdown() }()
			before := vlib.Quiesce(5 * time.Second)
			d := map[string]interface{}{"upstream": point, "negotiation_limit_s": 1, "local_connections": 6}
			fail := func(msg string) {
				vlib.Rec.Violation(map[string]interface{}{"property": "C14", "never_came_up": d, "problem": msg, "goroutines": vlib.GoroutineSummary(12), "descriptors": vlib.FDSummary(), "goroutine_dump": vlib.DumpGoroutines("c14-stalled")})
				t.Errorf("C14 %v: %s\ngoroutines: %v", d, msg, vlib.GoroutineSummary(12))
			}
			for i := 0; i < 6; i++ {
				c, err := net.DialTimeout("tcp", vlib.HostPort(lport), 5*time.Second)
				if err != nil {
					fail(fmt.Sprintf("local connection %d: dial: %v", i, err))
					return
				}
				c.Write([]byte("hello?"))
				c.SetReadDeadline(time.Now().Add(8 * time.Second))
				_, rerr := c.Read(make([]byte, 8))
				c.Close()
				if ne, ok := rerr.(net.Error); ok && ne.Timeout() {
					fail(fmt.Sprintf("local connection %d is still open 8s after it was made: the session it needs never comes up (%s) and the negotiation limit is 1s", i, point))
					return
				}
			}
			after := vlib.QuiesceBelow(vlib.Footprint{Goroutines: before.Goroutines + slack, FDs: before.FDs + slack}, 8*time.Second)
			d["before"], d["after"] = before.String(), after.String()
			vlib.Rec.Case(fmt.Sprintf("never-came-up %s", point), true, []string{"session-never-comes-up", "point:" + point}, func() interface{} { return d })
			if after.Goroutines > before.Goroutines+slack || after.FDs > before.FDs+slack {
				fail(fmt.Sprintf("after six local connections whose session never came up the client's footprint is %v, before them it was %v", after, before))
			}
		}()
	}
}
