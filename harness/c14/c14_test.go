//go:build verif

package c14

import (
	"fmt"
	"net"
	"runtime/debug"
	"strings"
	"sync"
	"testing"
	"time"

	"github.com/bokysan/socketace/v2/internal/zzverif/vlib"
	"pgregory.net/rapid"
)

func TestMain(m *testing.M) { vlib.Main(m) }

type history struct {
	Carrier   string `json:"carrier"`
	StartTLS  bool   `json:"starttls"`
	Closer    string `json:"closer"`  // app, target, both
	Overlap   int    `json:"overlap"` // connections kept open at the same time (1 = sequential)
	Payload   int    `json:"payload"`
	Ending    string `json:"ending"` // none, client-shutdown, server-shutdown, cut-rst, cut-fin, garbage, silent
	OpenAtEnd int    `json:"idle_connections_open_when_the_session_ends"`
	N1        int    `json:"n1"`
	N2        int    `json:"n2"`
	// Refused: after every batch of working connections as many requests that the server has to refuse:
	// "unknown-channel" (a channel the server does not offer), "dead-target" (a channel whose target refuses)
	Refused string `json:"refused_requests"`
	// Forward: the client listener has a forward address that is reachable, so every connection is made directly
	// (the client's direct path has its own copy loop and its own closes)
	Forward bool `json:"listener_forwards_directly,omitempty"`
	// Spare: the client's fail-over list has a second, equally reachable entry for the server
	Spare bool `json:"spare_upstream_in_the_failover_list,omitempty"`
	// FramePart (ending cut-fin-inside-frame): which partial frame precedes the end of the carrier
	FramePart int `json:"partial_frame,omitempty"`
}

// refusedConn asks for something the server must refuse; the application connection has to end without data.
func refusedConn(p *vlib.Pair, h history) string {
	name := "nochan"
	if h.Refused == "dead-target" {
		name = "dead"
	}
	c, err := p.Dial(name)
	if err != nil {
		return "dial listener of the refused channel: " + err.Error()
	}
	defer c.Close()
	c.SetDeadline(time.Now().Add(20 * time.Second))
	c.Write([]byte("hello?"))
	buf := make([]byte, 16)
	n, rerr := c.Read(buf)
	if n > 0 {
		return fmt.Sprintf("a refused request (%s) returned %d bytes", h.Refused, n)
	}
	if ne, ok := rerr.(net.Error); ok && ne.Timeout() {
		return fmt.Sprintf("a refused request (%s) is never answered: the application connection stays open for 20s", h.Refused)
	}
	return ""
}

// runConns opens n logical connections (overlap at a time), exchanges payload bytes each way and closes them in
// the given manner. Returns an error text when a connection did not work at all (not the subject here, but a
// broken pair makes the measurement meaningless).
func runConns(p *vlib.Pair, tgt *vlib.Target, h history, n int) string {
	closeByTarget := make(chan struct{})
	_ = closeByTarget
	for done := 0; done < n; {
		k := h.Overlap
		if n-done < k {
			k = n - done
		}
		var wg sync.WaitGroup
		errs := make([]string, k)
		for i := 0; i < k; i++ {
			wg.Add(1)
			go func(i int) {
				defer wg.Done()
				errs[i] = oneConn(p, h)
				if errs[i] == "" && h.Refused != "" {
					errs[i] = refusedConn(p, h)
				}
			}(i)
		}
		wg.Wait()
		for _, e := range errs {
			if e != "" {
				return e
			}
		}
		done += k
	}
	return ""
}

// The target echoes; with closer=target/both it closes right after echoing payload bytes.
func makeHandler(h history) func(tc *vlib.TargetConn) {
	return func(tc *vlib.TargetConn) {
		defer tc.Conn.Close()
		buf := make([]byte, 64*1024)
		total := 0
		why := ""
		defer func() {
			noteExit(fmt.Sprintf("target conn %d from %v: echoed %d, exit: %s", tc.Idx, tc.Conn.RemoteAddr(), total, why))
		}()
		for {
			tc.Conn.SetReadDeadline(time.Now().Add(30 * time.Second))
			n, err := tc.Conn.Read(buf)
			if n > 0 {
				if _, werr := tc.Conn.Write(buf[:n]); werr != nil {
					why = "write error " + werr.Error()
					return
				}
				total += n
			}
			if err != nil {
				why = "read error " + err.Error()
				return
			}
			why = "closer rule"
			if (h.Closer == "target" || h.Closer == "both") && total >= h.Payload {
				return // target closes first
			}
		}
	}
}

func oneConn(p *vlib.Pair, h history) string {
	c, err := p.Dial("data")
	if err != nil {
		return "dial: " + err.Error()
	}
	defer c.Close()
	data := vlib.PRF(7, 0, h.Payload)
	c.SetDeadline(time.Now().Add(20 * time.Second))
	if _, err := c.Write(data); err != nil {
		return "write: " + err.Error()
	}
	got, err := vlib.ReadFullTimeout(c, len(data), 20*time.Second)
	if len(got) != len(data) {
		time.Sleep(50 * time.Millisecond)
		exitMu.Lock()
		defer exitMu.Unlock()
		return fmt.Sprintf("echo incomplete: %d of %d (%v) local %v; target exits: %v", len(got), len(data), err, c.LocalAddr(), exitRing)
	}
	switch h.Closer {
	case "app":
		c.Close()
	case "target":
		// wait for the target's close to arrive
		c.SetReadDeadline(time.Now().Add(20 * time.Second))
		b := make([]byte, 1)
		c.Read(b)
	case "both":
		c.Close()
	}
	return ""
}

var (
	exitMu   sync.Mutex
	exitRing []string
)

func noteExit(s string) {
	exitMu.Lock()
	exitRing = append(exitRing, s)
	if len(exitRing) > 6 {
		exitRing = exitRing[len(exitRing)-6:]
	}
	exitMu.Unlock()
}

const slack = 3

type historyFailure string

// judgeHistory runs one history against a fresh pair; failure = description of the violation ("" = none).
func judgeHistory(h history) (failure string, meas map[string]interface{}, inconclusive bool) {
	viaRelay := h.Carrier != vlib.CarStdio
	defer func() {
		if r := recover(); r != nil {
			if hf, ok := r.(historyFailure); ok {
				failure = string(hf)
				return
			}
			panic(r)
		}
	}()
	fail := func(msg string, extra map[string]interface{}) {
		v := map[string]interface{}{"property": "C14", "history": h, "problem": msg, "goroutines": vlib.GoroutineSummary(12), "descriptors": vlib.FDSummary(), "log": vlib.Tap.Tail(40)}
		for k, x := range extra {
			v[k] = x
		}
		v["goroutine_dump"] = vlib.DumpGoroutines("c14")
		vlib.Rec.Violation(v)
		panic(historyFailure(fmt.Sprintf("C14 %+v: %s\ngoroutines: %v\ndescriptors: %v\nlog: %v", h, msg, vlib.GoroutineSummary(12), vlib.FDSummary(), vlib.Tap.Tail(40))))
	}

	vlib.Tap.Reset()
	before := vlib.Quiesce(5 * time.Second)
	tgt := vlib.NewTarget("data", makeHandler(h))
	cfg := vlib.PairConfig{Carrier: h.Carrier, ClientInsecure: true, ViaRelay: viaRelay, SpareUpstream: h.Spare,
		Channels:  []vlib.ChannelSpec{{Name: "data", Target: tgt.URL()}},
		Listeners: []vlib.ListenerSpec{{Channel: "data"}}}
	if h.Forward {
		cfg.Listeners[0].Forward = tgt.URL()
	}
	var deadPort net.Listener
	if h.Refused != "" {
		// "nochan": a listener for a channel the server does not have; "dead": a channel whose target port is
		// bound but not listening any more (connection refused)
		deadPort, _ = net.Listen("tcp", "127.0.0.1:0")
		dead := deadPort.Addr().String()
		deadPort.Close()
		cfg.Channels = append(cfg.Channels, vlib.ChannelSpec{Name: "dead", Target: "tcp://" + dead})
		cfg.Listeners = append(cfg.Listeners, vlib.ListenerSpec{Channel: "nochan"}, vlib.ListenerSpec{Channel: "dead"})
	}
	if h.StartTLS || h.Carrier == vlib.CarTCPTLS {
		cfg.ServerCert = &vlib.GetPKI().ServerGood
	}
	p, err := vlib.StartPair(cfg)
	if err != nil {
		tgt.Close()
		if vlib.IsBindError(err) {
			vlib.Rec.Inconclusive("bind")
			return "", nil, true
		}
		panic(historyFailure(fmt.Sprintf("pair start: %v", err)))
	}
	closed := false
	cleanup := func() {
		if !closed {
			closed = true
			p.Close()
			tgt.Close()
		}
	}
	defer cleanup()

	// A socket that is merely forgotten is closed by its finaliser at some later garbage collection; that is not
	// "reclaimed when the connection ends". The collector is therefore switched off while connections are counted.
	defer debug.SetGCPercent(debug.SetGCPercent(-1))
	// both ends are up, no physical session exists yet
	fresh := vlib.Quiesce(3 * time.Second)
	// warm-up: establishes the physical session and any lazily started workers
	if msg := runConns(p, tgt, h, 3); msg != "" {
		fail("warm-up connection failed: "+msg, nil)
	}
	idle := vlib.Quiesce(10 * time.Second)
	idleFDs := vlib.FDSummary()

	if msg := runConns(p, tgt, h, h.N1); msg != "" {
		fail("connection failed: "+msg, nil)
	}
	m1 := vlib.QuiesceBelow(vlib.Footprint{Goroutines: idle.Goroutines + slack, FDs: idle.FDs + slack}, 10*time.Second)
	if msg := runConns(p, tgt, h, h.N2); msg != "" {
		fail("connection failed: "+msg, nil)
	}
	m2 := vlib.QuiesceBelow(vlib.Footprint{Goroutines: idle.Goroutines + slack, FDs: idle.FDs + slack}, 10*time.Second)

	meas = map[string]interface{}{"before_pair": before.String(), "idle": idle.String(), "after_n1": m1.String(), "after_n2": m2.String()}
	if m2.FDs > idle.FDs {
		meas["descriptors_when_idle"] = idleFDs
		meas["descriptors_after_n2"] = vlib.FDSummary()
	}
	// differential growth: 100 further connections may not cost more than 20 did, up to a small constant
	g1g, g2g := m1.Goroutines-idle.Goroutines, m2.Goroutines-idle.Goroutines
	g1f, g2f := m1.FDs-idle.FDs, m2.FDs-idle.FDs
	if g2g-g1g > slack || g2g > 2*slack {
		fail(fmt.Sprintf("goroutines grow with the number of finished connections: idle %d, after %d conns %d, after %d more %d", idle.Goroutines, h.N1, m1.Goroutines, h.N2, m2.Goroutines), meas)
	}
	if g2f-g1f > slack || g2f > 2*slack {
		fail(fmt.Sprintf("descriptors grow with the number of finished connections: idle %d, after %d conns %d, after %d more %d", idle.FDs, h.N1, m1.FDs, h.N2, m2.FDs), meas)
	}
	if cpu := vlib.IdleCPU(1500 * time.Millisecond); cpu > 0.25 {
		fail(fmt.Sprintf("process uses %.0f%% of a core while idle after %d finished connections", cpu*100, h.N1+h.N2), meas)
	}

	// logical connections that are open and idle when the session ends: their sockets on both sides must be
	// released as well (the application sees end-of-stream, the target's connection is closed)
	var idleConns []net.Conn
	if h.Ending != "none" {
		idleHandler := makeHandler(history{Closer: "app", Payload: 1})
		tgt.SetHandler(idleHandler)
		for i := 0; i < h.OpenAtEnd; i++ {
			c, err := p.Dial("data")
			if err != nil {
				fail("dial: "+err.Error(), nil)
			}
			c.SetDeadline(time.Now().Add(20 * time.Second))
			c.Write([]byte("x"))
			if got, _ := vlib.ReadFullTimeout(c, 1, 20*time.Second); len(got) != 1 {
				c.Close()
				fail("idle connection did not come up", nil)
			}
			c.SetDeadline(time.Time{})
			idleConns = append(idleConns, c)
		}
	}
	defer func() {
		for _, c := range idleConns {
			c.Close()
		}
	}()

	// session ending
	switch h.Ending {
	case "none":
	case "client-shutdown":
		p.Client.Shutdown()
	case "server-shutdown":
		p.Server.Shutdown()
	case "cut-rst":
		p.Relay.Cut(true)
	case "cut-fin":
		p.Relay.Cut(false)
	case "cut-fin-inside-frame":
		// the carrier ends in an orderly way (FIN), but in the middle of a multiplexer frame: first a drawn 1-7 bytes of
		// a frame header, or a complete header announcing more payload than follows, then the end
		part := [][]byte{{1}, {1, 2, 0x10}, {1, 2, 0x10, 0x00, 0x03, 0x00, 0x00}, {1, 2, 0x40, 0x00, 0x03, 0x00, 0x00, 0x00, 'x', 'y', 'z'}}[h.FramePart%4]
		p.Relay.InjectUp(part)
		p.Relay.InjectDown(part)
		time.Sleep(50 * time.Millisecond)
		p.Relay.Cut(false)
	case "garbage":
		junk := vlib.PRF(99, 0, 3000)
		p.Relay.InjectUp(junk)
		p.Relay.InjectDown(junk)
	case "outage-and-recovery":
		// the session is lost while the server cannot be reached; connections attempted meanwhile fail; when the
		// server is reachable again the client must work as before and keep nothing of the failed attempts
		p.Relay.SetDown(true)
		p.Relay.Cut(true)
		for i := 0; i < 2; i++ {
			if c, err := p.Dial("data"); err == nil {
				c.SetDeadline(time.Now().Add(10 * time.Second))
				c.Write([]byte("anybody?"))
				buf := make([]byte, 8)
				c.Read(buf)
				c.Close()
			}
		}
		p.Relay.SetDown(false)
		if msg := runConns(p, tgt, history{Carrier: h.Carrier, Closer: "app", Overlap: 1, Payload: 100}, 20); msg != "" {
			fail("after an outage during which connection attempts failed, with the server reachable again: "+msg, meas)
		}
	case "silent":
		// the carrier stays open but nothing passes any more: multiplexer keep-alive must end the session
		p.Relay.DelayUp, p.Relay.DelayDown = time.Hour, time.Hour
	}
	if h.Ending != "none" {
		wait := 6 * time.Second
		if h.Ending == "silent" {
			// the multiplexer checks every 30 s whether anything arrived since its previous check: a silent carrier is
			// noticed between 30 and 60 s after the last frame
			wait = 75 * time.Second
		}
		// every idle application connection must see the end of its tunnel
		for i, c := range idleConns {
			c.SetReadDeadline(time.Now().Add(wait + 10*time.Second))
			buf := make([]byte, 8)
			if _, err := c.Read(buf); err == nil {
				fail(fmt.Sprintf("idle connection %d received data after the session ended", i), meas)
			} else if ne, ok := err.(net.Error); ok && ne.Timeout() {
				fail(fmt.Sprintf("after the session ended (%s) idle application connection %d of %d is never told: no end-of-stream within %v", h.Ending, i, len(idleConns), wait+10*time.Second), meas)
			}
			c.Close()
		}
		idleConns = nil
		limit := vlib.Footprint{Goroutines: idle.Goroutines + slack, FDs: idle.FDs + slack}
		after := vlib.QuiesceBelow(limit, wait)
		time.Sleep(300 * time.Millisecond)
		cpu := vlib.IdleCPU(2 * time.Second)
		meas["after_ending"] = after.String()
		meas["idle_cpu_after_ending"] = cpu
		if cpu > 0.25 {
			fail(fmt.Sprintf("after the session ended (%s) the process uses %.0f%% of a core while idle (dead session serviced in a busy loop)", h.Ending, cpu*100), meas)
		}
		if after.Goroutines > limit.Goroutines || after.FDs > limit.FDs {
			fail(fmt.Sprintf("after the session ended (%s) the footprint %v stays above the idle footprint %v", h.Ending, after, idle), meas)
		}
		if h.Ending != "server-shutdown" && h.Ending != "outage-and-recovery" {
			// the physical session is gone and nothing has asked for a new one: what the session itself held (its
			// carrier, its multiplexer workers, on both sides) is released too, so the footprint is back to that of the
			// two ends before their first session
			limit := vlib.Footprint{Goroutines: fresh.Goroutines + slack, FDs: fresh.FDs + slack}
			// (a silent carrier is only noticed by the keep-alive: with no idle connection waiting for its end nothing
			// above has waited for that yet)
			after = vlib.QuiesceBelow(limit, wait+10*time.Second)
			meas["before_first_session"] = fresh.String()
			meas["after_ending_settled"] = after.String()
			if after.Goroutines > limit.Goroutines || after.FDs > limit.FDs {
				meas["descriptors_after_ending"] = vlib.FDSummary()
				meas["goroutines_after_ending"] = vlib.GoroutineSummary(12)
				fail(fmt.Sprintf("after the session ended (%s) and with no new one asked for, the footprint %v stays above the footprint %v the two ends had before their first session", h.Ending, after, fresh), meas)
			}
		}
	}
	cleanup()
	end := vlib.QuiesceBelow(vlib.Footprint{Goroutines: before.Goroutines + slack, FDs: before.FDs + slack}, 8*time.Second)
	meas["after_shutdown"] = end.String()
	if end.Goroutines > before.Goroutines+slack || end.FDs > before.FDs+slack {
		if h.Carrier == vlib.CarStdio {
			// standard-stream endpoints live as long as the process' standard streams: not judged after shutdown
		} else {
			fail(fmt.Sprintf("after shutting both ends down the footprint %v stays above %v (before the pair existed)", end, before), meas)
		}
	}
	return "", meas, false
}

func TestReclaim(t *testing.T) {
	rapid.Check(t, func(rt *rapid.T) {
		carriers := []string{vlib.CarTCP, vlib.CarTCPTLS, vlib.CarHTTP, vlib.CarStdio}
		h := history{N1: 20, N2: 100}
		h.Carrier = carriers[rapid.IntRange(0, len(carriers)-1).Draw(rt, "carrier")]
		h.StartTLS = (h.Carrier == vlib.CarTCP || h.Carrier == vlib.CarHTTP || h.Carrier == vlib.CarStdio) && rapid.IntRange(0, 3).Draw(rt, "starttls") == 0
		h.Closer = []string{"app", "target", "both"}[rapid.IntRange(0, 2).Draw(rt, "closer")]
		h.Overlap = []int{1, 1, 2, 5}[rapid.IntRange(0, 3).Draw(rt, "overlap")]
		h.Payload = []int{1, 100, 5000, 40000}[rapid.IntRange(0, 3).Draw(rt, "payload")]
		endings := []string{"none", "client-shutdown", "server-shutdown", "cut-rst", "cut-fin", "cut-fin-inside-frame", "garbage", "outage-and-recovery"}
		if vlib.Thorough() {
			endings = append(endings, "silent")
		}
		h.Ending = endings[rapid.IntRange(0, len(endings)-1).Draw(rt, "ending")]
		h.OpenAtEnd = []int{0, 0, 1, 3, 6}[rapid.IntRange(0, 4).Draw(rt, "openAtEnd")]
		h.Refused = []string{"", "", "unknown-channel", "dead-target"}[rapid.IntRange(0, 3).Draw(rt, "refused")]
		h.Forward = rapid.IntRange(0, 4).Draw(rt, "forward") == 0
		if h.Ending == "cut-fin-inside-frame" {
			h.FramePart = rapid.IntRange(0, 3).Draw(rt, "framePart")
		}
		h.Spare = h.Carrier != vlib.CarStdio && rapid.IntRange(0, 2).Draw(rt, "spare") == 0
		if h.Forward {
			// no physical session is involved: nothing to refuse, nothing to end
			h.Refused = ""
			h.Ending = "none"
		}
		viaRelay := h.Carrier != vlib.CarStdio
		if !viaRelay && (h.Ending == "cut-rst" || h.Ending == "cut-fin" || h.Ending == "garbage" || h.Ending == "silent" || h.Ending == "outage-and-recovery" || h.Ending == "cut-fin-inside-frame") {
			h.Ending = "server-shutdown"
		}
		if h.Carrier == vlib.CarStdio && h.Ending == "server-shutdown" {
			// a standard-stream server has nothing to shut down (IoServer.Shutdown is a no-op by design)
			h.Ending = "client-shutdown"
		}

		if h.Ending == "server-shutdown" || h.Ending == "none" {
			// shutting the server down stops its listeners; it does not end established sessions, so open logical
			// connections legitimately stay up
			h.OpenAtEnd = 0
		}

		failure, meas, inconclusive := judgeHistory(h)
		if inconclusive {
			return
		}
		if failure != "" {
			rt.Fatalf("%s", failure)
		}
		nontrivial := h.Closer != "app" || h.Ending != "none" || h.Refused != ""
		labels := []string{"refused:" + h.Refused, fmt.Sprintf("forward:%v", h.Forward), fmt.Sprintf("spare-upstream:%v", h.Spare), "carrier:" + h.Carrier, "closer:" + h.Closer, "ending:" + h.Ending, fmt.Sprintf("overlap:%d", h.Overlap), fmt.Sprintf("open-at-end:%d", h.OpenAtEnd)}
		if h.StartTLS {
			labels = append(labels, "starttls")
		}
		vlib.Rec.Case(fmt.Sprintf("%+v", h), nontrivial, labels, func() interface{} { return map[string]interface{}{"history": h, "measured": meas} })
	})
}

// TestCarrierEndsInsideAFrame enumerates, for the plain carriers (where injected bytes are multiplexer bytes), every
// partial frame followed by an orderly end of the carrier, with idle logical connections open: the dead session may not be
// serviced in a loop, the idle connections are told, and the footprint returns to idle.
func TestCarrierEndsInsideAFrame(t *testing.T) {
	carriers := []string{vlib.CarTCP, vlib.CarHTTP}
	for _, car := range carriers {
		for part := 0; part < 4; part++ {
			h := history{Carrier: car, Closer: "app", Overlap: 1, Payload: 100, Ending: "cut-fin-inside-frame", OpenAtEnd: 2, N1: 3, N2: 3, FramePart: part}
			failure, meas, inconclusive := judgeHistory(h)
			if inconclusive {
				continue
			}
			vlib.Rec.Case(fmt.Sprintf("enumerated %+v", h), true, []string{"carrier:" + car, "ending:" + h.Ending, "enumerated"}, func() interface{} { return map[string]interface{}{"history": h, "measured": meas} })
			if failure != "" {
				t.Fatalf("%s", failure)
			}
		}
	}
}

// TestManySessions: "after a physical session has ended in any manner ... no goroutine, socket or processor use remains
// that grows with the number of past" sessions either. One server per carrier serves a sequence of client processes'
// worth of sessions (each: one logical connection used and closed, then the client shut down, i.e. the peer ends the
// session first and the server closes second); the footprint after 30 sessions may not exceed the one after 5.
func TestManySessions(t *testing.T) {
	carriers := []string{vlib.CarTCP, vlib.CarHTTP, vlib.CarTCPTLS, vlib.CarHTTPS, vlib.CarUDP}
	for _, car := range carriers {
		// A datagram carrier has no end-of-connection: the server learns that a client is gone from the multiplexer's
		// keep-alive (30-60 s), so its goroutines settle only then. The thorough tier waits for that; the quick tier judges
		// the descriptors only (the server's side of a KCP session owns none).
		descriptorsOnly := car == vlib.CarUDP && !vlib.Thorough()
		func() {
			defer debug.SetGCPercent(debug.SetGCPercent(-1))
			tgt := vlib.NewTarget("data", vlib.EchoHandler)
			defer tgt.Close()
			cfg := vlib.PairConfig{Carrier: car, ClientInsecure: true,
				Channels:  []vlib.ChannelSpec{{Name: "data", Target: tgt.URL()}},
				Listeners: []vlib.ListenerSpec{{Channel: "data"}}}
			if strings.Contains(car, "tls") || car == vlib.CarHTTPS {
				cfg.ServerCert = &vlib.GetPKI().ServerGood
			}
			p, err := vlib.StartPair(cfg)
			if err != nil {
				vlib.Rec.Inconclusive("bind")
				return
			}
			defer p.Close()
			session := func(i int) string {
				ec, err := p.AddClient("data")
				if err != nil {
					return "extra client: " + err.Error()
				}
				defer ec.Close()
				c, err := ec.Dial("data")
				if err != nil {
					return "dial: " + err.Error()
				}
				msg := vlib.PRF(uint64(i), 0, 200)
				c.SetDeadline(time.Now().Add(15 * time.Second))
				c.Write(msg)
				got, rerr := vlib.ReadFullTimeout(c, len(msg), 15*time.Second)
				c.Close()
				if vlib.FirstDiff(got, msg) != -1 {
					return fmt.Sprintf("echo: %d of %d bytes (%v)", len(got), len(msg), rerr)
				}
				return ""
			}
			run := func(from, to int) string {
				for i := from; i < to; i++ {
					if m := session(i); m != "" {
						return fmt.Sprintf("session %d: %s", i, m)
					}
				}
				return ""
			}
			h := map[string]interface{}{"carrier": car, "sessions": 30, "each": "client connects, one logical connection echoes 200 bytes and is closed, client shuts down"}
			fail := func(msg string) {
				vlib.Rec.Violation(map[string]interface{}{"property": "C14", "many_sessions": h, "problem": msg, "goroutines": vlib.GoroutineSummary(12), "descriptors": vlib.FDSummary(), "goroutine_dump": vlib.DumpGoroutines("c14-sessions")})
				t.Errorf("C14 many sessions %v: %s\ngoroutines: %v\ndescriptors: %v", h, msg, vlib.GoroutineSummary(12), vlib.FDSummary())
			}
			if m := run(0, 5); m != "" {
				fail(m)
				return
			}
			m1 := vlib.Quiesce(8 * time.Second)
			udp1 := vlib.NonTCPSockets()
			if car == vlib.CarUDP && !descriptorsOnly {
				time.Sleep(65 * time.Second) // let the first five sessions time out, so that m1 is a settled level
				m1 = vlib.Quiesce(8 * time.Second)
			}
			if m := run(5, 30); m != "" {
				fail(m)
				return
			}
			settle := 10 * time.Second
			if car == vlib.CarUDP && !descriptorsOnly {
				settle = 75 * time.Second
			}
			m2 := vlib.QuiesceBelow(vlib.Footprint{Goroutines: m1.Goroutines + slack, FDs: m1.FDs + slack}, settle)
			h["after_5_sessions"], h["after_30_sessions"] = m1.String(), m2.String()
			vlib.Rec.Case(fmt.Sprintf("many-sessions %s", car), true, []string{"many-sessions", "carrier:" + car}, func() interface{} { return h })
			if descriptorsOnly {
				// what the server keeps of a vanished datagram client until the keep-alive (goroutines, the connection to
				// the target) is not judged here; datagram sockets are: every client session opened one of its own
				h["judged"] = "datagram sockets only"
				h["datagram_sockets_after_5_sessions"], h["datagram_sockets_after_30_sessions"] = udp1, vlib.NonTCPSockets()
				m2 = m1
				m2.FDs = m1.FDs + vlib.NonTCPSockets() - udp1
			}
			if m2.Goroutines > m1.Goroutines+slack || m2.FDs > m1.FDs+slack {
				fail(fmt.Sprintf("the footprint grows with the number of past sessions: after 5 sessions %v, after 30 sessions %v", m1, m2))
			}
		}()
	}
}
