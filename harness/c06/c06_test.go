//go:build verif

package c06

import (
	"bytes"
	"fmt"
	"io"
	"net"
	"regexp"
	"strings"
	"sync"
	"sync/atomic"
	"testing"
	"time"

	"github.com/bokysan/socketace/v2/internal/socketace"
	"github.com/bokysan/socketace/v2/internal/util/cert"
	"github.com/bokysan/socketace/v2/internal/version"
	"github.com/bokysan/socketace/v2/internal/zzverif/vlib"
	"pgregory.net/rapid"
)

func TestMain(m *testing.M) { vlib.Main(m) }

// ---- in-memory carrier delivering exactly one generated segment per Read --------------------------------------

type segConn struct {
	mu     sync.Mutex
	segs   [][]byte
	out    bytes.Buffer
	closed bool
	// writeDelay: the carrier takes this long to consume a written message (a peer that reads late, a
	// synchronous pipe); the bytes are taken from the caller's slice at the end of the call
	writeDelay time.Duration
}

func newSegConn(data []byte, cuts []int) *segConn {
	c := &segConn{}
	pos := 0
	for _, k := range cuts {
		if pos >= len(data) {
			break
		}
		if k < 1 {
			k = 1
		}
		if pos+k > len(data) {
			k = len(data) - pos
		}
		c.segs = append(c.segs, data[pos:pos+k])
		pos += k
	}
	if pos < len(data) {
		c.segs = append(c.segs, data[pos:])
	}
	return c
}

func (c *segConn) Read(p []byte) (int, error) {
	c.mu.Lock()
	defer c.mu.Unlock()
	if len(c.segs) == 0 {
		return 0, io.EOF // input exhausted and closed
	}
	n := copy(p, c.segs[0])
	if n < len(c.segs[0]) {
		c.segs[0] = c.segs[0][n:]
	} else {
		c.segs = c.segs[1:]
	}
	return n, nil
}
func (c *segConn) Write(p []byte) (int, error) {
	if c.writeDelay > 0 {
		time.Sleep(c.writeDelay)
	}
	c.mu.Lock()
	defer c.mu.Unlock()
	c.out.Write(p)
	return len(p), nil
}
func (c *segConn) Close() error                       { c.mu.Lock(); c.closed = true; c.mu.Unlock(); return nil }
func (c *segConn) LocalAddr() net.Addr                { return &net.TCPAddr{IP: net.IPv4(127, 0, 0, 1), Port: 1} }
func (c *segConn) RemoteAddr() net.Addr               { return &net.TCPAddr{IP: net.IPv4(127, 0, 0, 1), Port: 2} }
func (c *segConn) SetDeadline(t time.Time) error      { return nil }
func (c *segConn) SetReadDeadline(t time.Time) error  { return nil }
func (c *segConn) SetWriteDeadline(t time.Time) error { return nil }
func (c *segConn) output() []byte {
	c.mu.Lock()
	defer c.mu.Unlock()
	return append([]byte(nil), c.out.Bytes()...)
}

// ---- outcome ---------------------------------------------------------------------------------------------------

type outcome struct {
	Established bool
	Statuses    []string
	Leftover    string // bytes readable from the returned connection
	Panic       string
	Hang        bool
	Security    string
}

func (o outcome) String() string {
	return fmt.Sprintf("established=%v statuses=%v leftover=%dB(%s) security=%s panic=%q hang=%v", o.Established, o.Statuses, len(o.Leftover), vlib.Hex([]byte(o.Leftover)), o.Security, o.Panic, o.Hang)
}

var statusRe = regexp.MustCompile(`(?m)^HTTP/1\.1 (\d{3}) `)

func statuses(out []byte) []string {
	var r []string
	for _, m := range statusRe.FindAllSubmatch(out, -1) {
		r = append(r, string(m[1]))
	}
	return r
}

func serverManager(withCert bool) cert.TlsConfig {
	if withCert {
		kp := vlib.ServerCertFor("match", "localhost")
		return &cert.ServerConfig{Config: cert.Config{Certificate: kp.CertPEM, PrivateKey: kp.KeyPEM}}
	}
	return &cert.ServerConfig{}
}

// runServer feeds input (cut as given) to the real server handshake.
func runServer(input []byte, cuts []int, withCert bool) outcome {
	return runServerDelayed(input, cuts, withCert, 0)
}

func runServerDelayed(input []byte, cuts []int, withCert bool, writeDelay time.Duration) outcome {
	c := newSegConn(input, cuts)
	c.writeDelay = writeDelay
	res := make(chan outcome, 1)
	go func() {
		var o outcome
		defer func() {
			if r := recover(); r != nil {
				o.Panic = fmt.Sprint(r)
			}
			res <- o
		}()
		sc, err := socketace.NewServerConnection(c, serverManager(withCert), false)
		if err == nil && sc != nil {
			o.Established = true
			o.Security = sc.SecurityTech()
			rest, _ := io.ReadAll(sc)
			o.Leftover = string(rest)
		}
	}()
	select {
	case o := <-res:
		o.Statuses = statuses(c.output())
		return o
	case <-time.After(10 * time.Second):
		return outcome{Hang: true}
	}
}

// runClient feeds the scripted server responses to the real client handshake.
func runClient(input []byte, cuts []int) outcome {
	return runClientDelayed(input, cuts, 0)
}

func runClientDelayed(input []byte, cuts []int, writeDelay time.Duration) outcome {
	c := newSegConn(input, cuts)
	c.writeDelay = writeDelay
	res := make(chan outcome, 1)
	go func() {
		var o outcome
		defer func() {
			if r := recover(); r != nil {
				o.Panic = fmt.Sprint(r)
			}
			res <- o
		}()
		cc, err := socketace.NewClientConnection(c, &cert.ClientConfig{InsecureSkipVerify: true}, false, "localhost:1")
		if err == nil && cc != nil {
			o.Established = true
			o.Security = cc.SecurityTech()
			rest, _ := io.ReadAll(cc)
			o.Leftover = string(rest)
		}
	}()
	select {
	case o := <-res:
		return o
	case <-time.After(10 * time.Second):
		return outcome{Hang: true}
	}
}

// ---- grammar ---------------------------------------------------------------------------------------------------

type scriptCase struct {
	Role     string `json:"role"`
	Class    string `json:"class"` // VALID, INVALID, GARBAGE
	Mutation string `json:"mutation,omitempty"`
	Input    string `json:"input"`
	Pipeline string `json:"pipelined"`
	WithCert bool   `json:"server_has_cert"`
	// expectation of the reference model (VALID/INVALID only)
	WantSession bool     `json:"want_session"`
	WantStatus  []string `json:"want_status_any_of,omitempty"` // last status must be one of these, or no status at all (close)
}

func caseVariant(rt *rapid.T, name string) string {
	switch rapid.IntRange(0, 3).Draw(rt, "hcase") {
	case 0:
		return strings.ToLower(name)
	case 1:
		return strings.ToUpper(name)
	default:
		return name
	}
}

func eol(rt *rapid.T) string {
	if rapid.IntRange(0, 3).Draw(rt, "eol") == 0 {
		return "\n"
	}
	return "\r\n"
}

func extraHeaders(rt *rapid.T, nl string) string {
	var sb strings.Builder
	for i, n := 0, rapid.IntRange(0, 3).Draw(rt, "nextra"); i < n; i++ {
		name := rapid.StringMatching(`X-[A-Za-z]{1,12}`).Draw(rt, "hname")
		val := rapid.StringMatching(`[ -~]{0,40}`).Draw(rt, "hval")
		sb.WriteString(name + ": " + strings.TrimSpace(val) + nl)
	}
	return sb.String()
}

func versionList(rt *rapid.T, include bool) string {
	v := version.ProtocolVersion
	// unrelated versions and near-misses of the supported one (prefix, suffix, case, substring relations)
	others := []string{"0.9.0", "2.0.0", "v1", "1.0", "socketace", v + "x", "x" + v, v[:len(v)-1], strings.ToUpper(v) + "!", v + ".1", v[1:], "socketace/" + v}
	var l []string
	for i, n := 0, rapid.IntRange(0, 3).Draw(rt, "nother"); i < n; i++ {
		l = append(l, others[rapid.IntRange(0, len(others)-1).Draw(rt, "other")])
	}
	if include {
		pos := rapid.IntRange(0, len(l)).Draw(rt, "vpos")
		l = append(l[:pos], append([]string{version.ProtocolVersion}, l[pos:]...)...)
	}
	sep := []string{",", ", ", " , ", ",  "}[rapid.IntRange(0, 3).Draw(rt, "sep")]
	return strings.Join(l, sep)
}

// genServerScript builds a client->server byte script of a drawn class.
func genServerScript(rt *rapid.T) scriptCase {
	sc := scriptCase{Role: "server"}
	sc.WithCert = rapid.Bool().Draw(rt, "withCert")
	class := rapid.IntRange(0, 9).Draw(rt, "class")
	nl := eol(rt)
	mutation := ""
	if class >= 4 && class <= 7 {
		mutation = []string{"announce-method", "no-common-version", "no-version-header", "upgrade-method", "connection-missing",
			"connection-wrong", "upgrade-token-wrong", "upgrade-token-missing", "truncated", "no-colon", "request-line-spaces",
			"upgrade-version-other", "announce-method-case"}[rapid.IntRange(0, 12).Draw(rt, "mutation")]
	}
	method := "X-SOCKETACE"
	switch mutation {
	case "announce-method":
		method = []string{"GET", "POST", "X-SOCKETACE2", "X-SOCKETAC", "CONNECT"}[rapid.IntRange(0, 4).Draw(rt, "m")]
	case "announce-method-case":
		method = "x-socketace"
	}
	reqLine := method + " " + []string{"/", "/x", "*"}[rapid.IntRange(0, 2).Draw(rt, "url")] + " HTTP/1.1"
	if mutation == "no-version-header" && rapid.Bool().Draw(rt, "longFirstLine") {
		// the version offer is not a header of its own but the tail of an over-long first line (lengths around the
		// reader's buffer size): such a request offers no version
		pad := []int{4096, 4095, 4097, 8192, 4000}[rapid.IntRange(0, 4).Draw(rt, "firstLineLength")] - len(reqLine) - 1
		if pad < 0 {
			pad = 0
		}
		reqLine += ";" + strings.Repeat("x", pad) + "Accepts-Protocol-Version: " + version.ProtocolVersion
		mutation = "no-version-header-long-first-line"
	}
	if mutation == "request-line-spaces" {
		reqLine = []string{"X-SOCKETACE", "X-SOCKETACE/", "X-SOCKETACE /"}[rapid.IntRange(0, 2).Draw(rt, "rl")]
	}
	var a strings.Builder
	a.WriteString(reqLine + nl)
	a.WriteString(extraHeaders(rt, nl))
	switch mutation {
	case "no-version-header", "no-version-header-long-first-line":
	case "no-common-version":
		a.WriteString(caseVariant(rt, "Accepts-Protocol-Version") + ": " + versionList(rt, false) + nl)
	default:
		a.WriteString(caseVariant(rt, "Accepts-Protocol-Version") + ": " + versionList(rt, true) + nl)
	}
	if mutation == "no-colon" && rapid.Bool().Draw(rt, "noColonInAnnounce") {
		a.WriteString("this header line has no colon" + nl)
		mutation = "no-colon-announce"
	}
	a.WriteString(caseVariant(rt, "User-Agent") + ": verif/1.0" + nl)
	a.WriteString(nl)

	umethod := "GET"
	if mutation == "upgrade-method" {
		umethod = []string{"POST", "X-SOCKETACE", "get", "HEAD"}[rapid.IntRange(0, 3).Draw(rt, "um")]
	}
	var u strings.Builder
	u.WriteString(umethod + " / HTTP/1.1" + nl)
	u.WriteString(extraHeaders(rt, nl))
	switch mutation {
	case "upgrade-token-missing":
	case "upgrade-token-wrong":
		u.WriteString(caseVariant(rt, "Upgrade") + ": " + []string{"websocket", "socketace", "socketace/", "Socketace/" + version.ProtocolVersion, "socketace/" + version.ProtocolVersion + "x"}[rapid.IntRange(0, 4).Draw(rt, "ut")] + nl)
	case "upgrade-version-other":
		u.WriteString(caseVariant(rt, "Upgrade") + ": socketace/9.9.9" + nl)
	default:
		token := "socketace/" + version.ProtocolVersion
		if mutation == "no-common-version" || mutation == "no-version-header" || mutation == "no-version-header-long-first-line" {
			// a peer that was told "no common version" and goes on regardless may ask for anything it likes
			token = []string{token, token, "socketace/", "socketace", "socketace/9.9.9", "socketace/ "}[rapid.IntRange(0, 5).Draw(rt, "tokenAfterConflict")]
		}
		u.WriteString(caseVariant(rt, "Upgrade") + ": " + token + nl)
	}
	switch mutation {
	case "connection-missing":
	case "connection-wrong":
		u.WriteString(caseVariant(rt, "Connection") + ": " + []string{"keep-alive", "close", "upgrade2", "up grade"}[rapid.IntRange(0, 3).Draw(rt, "cw")] + nl)
	default:
		u.WriteString(caseVariant(rt, "Connection") + ": " + []string{"upgrade", "Upgrade", "UPGRADE"}[rapid.IntRange(0, 2).Draw(rt, "cv")] + nl)
	}
	if mutation == "no-colon" {
		u.WriteString("no colon here either" + nl)
		mutation = "no-colon-upgrade"
	}
	wantStartTLS := rapid.IntRange(0, 4).Draw(rt, "securityHeader") == 0
	if wantStartTLS {
		u.WriteString(caseVariant(rt, "Security") + ": " + []string{"StartTLS", "starttls", "STARTTLS"}[rapid.IntRange(0, 2).Draw(rt, "sv")] + nl)
	}
	u.WriteString(nl)
	pipeline := ""
	if rapid.IntRange(0, 2).Draw(rt, "pipelined") != 0 {
		pipeline = string(rapid.SliceOfN(rapid.Byte(), 1, 3000).Draw(rt, "payload"))
	}
	full := a.String() + u.String()
	switch {
	case class <= 3:
		sc.Class = "VALID"
		sc.Input = full + pipeline
		sc.Pipeline = pipeline
		sc.WantSession = !wantStartTLS // a StartTLS request needs a TLS hello next, which the script does not contain
		if wantStartTLS {
			sc.Class = "INVALID"
			sc.Mutation = "starttls-requested-without-tls-hello"
			if sc.WithCert {
				sc.WantStatus = []string{"101"} // upgrade accepted, then the TLS handshake fails on the following bytes
			} else {
				sc.WantStatus = []string{"503"}
			}
		}
	case class <= 7:
		sc.Class = "INVALID"
		sc.Mutation = mutation
		sc.Input = full + pipeline
		if mutation == "truncated" {
			cut := rapid.IntRange(0, len(full)-1).Draw(rt, "cut")
			sc.Input = full[:cut]
		}
		sc.WantStatus = []string{"400", "405", "406", "409", "503"}
		if wantStartTLS && sc.WithCert {
			sc.WantStatus = append(sc.WantStatus, "101")
		}
	default:
		sc.Class = "GARBAGE"
		switch rapid.IntRange(0, 3).Draw(rt, "garbage") {
		case 0:
			sc.Input = string(rapid.SliceOfN(rapid.Byte(), 0, 600).Draw(rt, "bytes"))
		case 1:
			// byte-level mutations of a valid script
			b := []byte(full + pipeline)
			for i, n := 0, rapid.IntRange(1, 6).Draw(rt, "nmut"); i < n && len(b) > 0; i++ {
				pos := rapid.IntRange(0, len(b)-1).Draw(rt, "pos")
				switch rapid.IntRange(0, 2).Draw(rt, "op") {
				case 0:
					b[pos] = rapid.Byte().Draw(rt, "b")
				case 1:
					b = append(b[:pos], b[pos+1:]...)
				default:
					b = append(b[:pos], append([]byte{rapid.Byte().Draw(rt, "b")}, b[pos:]...)...)
				}
			}
			sc.Input = string(b)
		case 2:
			// oversized line
			n := []int{4000, 4096, 4097, 70000, 1 << 20}[rapid.IntRange(0, 4).Draw(rt, "big")]
			sc.Input = "X-SOCKETACE / HTTP/1.1" + nl + "X-Big: " + strings.Repeat("a", n) + nl + "Accepts-Protocol-Version: " + version.ProtocolVersion + nl + nl + u.String() + pipeline
		default:
			sc.Input = strings.Repeat(a.String(), rapid.IntRange(2, 4).Draw(rt, "rep")) + u.String()
		}
	}
	return sc
}

// genClientScript builds a server->client byte script.
func genClientScript(rt *rapid.T) scriptCase {
	sc := scriptCase{Role: "client"}
	class := rapid.IntRange(0, 9).Draw(rt, "class")
	nl := eol(rt)
	mutation := ""
	if class >= 4 && class <= 7 {
		mutation = []string{"announce-status", "upgrade-status", "truncated", "status-not-number", "status-line-spaces", "capability-starttls", "no-colon"}[rapid.IntRange(0, 6).Draw(rt, "mutation")]
	}
	st1 := "200 OK"
	if mutation == "announce-status" {
		st1 = []string{"400 Bad Request", "405 Method Not Allowed", "409 Conflict", "500 Oops", "201 Created", "101 Switching Protocols"}[rapid.IntRange(0, 5).Draw(rt, "s1")]
	}
	line1 := "HTTP/1.1 " + st1
	if mutation == "status-not-number" {
		line1 = "HTTP/1.1 OK 200"
	}
	if mutation == "status-line-spaces" {
		line1 = []string{"HTTP/1.1", "HTTP/1.1 200"}[rapid.IntRange(0, 1).Draw(rt, "sl")]
	}
	var a strings.Builder
	a.WriteString(line1 + nl)
	a.WriteString(caseVariant(rt, "Server") + ": scripted/1.0" + nl)
	a.WriteString(extraHeaders(rt, nl))
	a.WriteString(caseVariant(rt, "Protocol-Version") + ": " + version.ProtocolVersion + nl)
	if mutation == "capability-starttls" {
		a.WriteString(caseVariant(rt, "Capabilities") + ": " + []string{"StartTLS", "starttls", "FOO, StartTLS"}[rapid.IntRange(0, 2).Draw(rt, "cap")] + nl)
	} else if rapid.Bool().Draw(rt, "otherCap") {
		a.WriteString(caseVariant(rt, "Capabilities") + ": " + []string{"FOO", "StartTLS2", "Start TLS"}[rapid.IntRange(0, 2).Draw(rt, "ocap")] + nl)
	}
	if mutation == "no-colon" {
		a.WriteString("no colon in this line" + nl)
	}
	a.WriteString(nl)
	st2 := "101 Switching Protocols"
	if mutation == "upgrade-status" {
		st2 = []string{"200 OK", "405 Method Not Allowed", "406 Not acceptable", "503 Service Unavailable", "100 Continue"}[rapid.IntRange(0, 4).Draw(rt, "s2")]
	}
	var u strings.Builder
	u.WriteString("HTTP/1.1 " + st2 + nl)
	u.WriteString(caseVariant(rt, "Connection") + ": upgrade" + nl)
	u.WriteString(caseVariant(rt, "Upgrade") + ": socketace/" + version.ProtocolVersion + nl)
	u.WriteString(extraHeaders(rt, nl))
	u.WriteString(nl)
	pipeline := ""
	if rapid.IntRange(0, 2).Draw(rt, "pipelined") != 0 {
		pipeline = string(rapid.SliceOfN(rapid.Byte(), 1, 3000).Draw(rt, "payload"))
	}
	full := a.String() + u.String()
	switch {
	case class <= 3:
		sc.Class = "VALID"
		sc.Input = full + pipeline
		sc.Pipeline = pipeline
		sc.WantSession = true
	case class <= 7:
		sc.Class = "INVALID"
		sc.Mutation = mutation
		sc.Input = full + pipeline
		if mutation == "truncated" {
			sc.Input = full[:rapid.IntRange(0, len(full)-1).Draw(rt, "cut")]
		}
	default:
		sc.Class = "GARBAGE"
		if rapid.Bool().Draw(rt, "rawGarbage") {
			sc.Input = string(rapid.SliceOfN(rapid.Byte(), 0, 600).Draw(rt, "bytes"))
		} else {
			b := []byte(full + pipeline)
			for i, n := 0, rapid.IntRange(1, 6).Draw(rt, "nmut"); i < n && len(b) > 0; i++ {
				pos := rapid.IntRange(0, len(b)-1).Draw(rt, "pos")
				if rapid.Bool().Draw(rt, "del") {
					b = append(b[:pos], b[pos+1:]...)
				} else {
					b[pos] = rapid.Byte().Draw(rt, "b")
				}
			}
			sc.Input = string(b)
		}
	}
	return sc
}

func drawCuts(rt *rapid.T, label string, n int) []int {
	switch rapid.IntRange(0, 3).Draw(rt, label+"Mode") {
	case 0:
		return nil // everything coalesced into one read
	case 1:
		if n > 6000 {
			return []int{1, 1, 1, 1, 1, 1, 1, 1, 1, 1, 1, 1, 1, 1, 1, 1}
		}
		c := make([]int, n)
		for i := range c {
			c[i] = 1 // 1-byte trickle
		}
		return c
	default:
		k := rapid.IntRange(1, 12).Draw(rt, label+"K")
		c := make([]int, k)
		for i := range c {
			c[i] = rapid.IntRange(1, 200).Draw(rt, label+"C")
		}
		return c
	}
}

func same(a, b outcome) bool {
	return a.Established == b.Established && a.Leftover == b.Leftover && strings.Join(a.Statuses, ",") == strings.Join(b.Statuses, ",") && a.Panic == b.Panic && a.Hang == b.Hang && a.Security == b.Security
}

func judgeCase(sc scriptCase, cutsA, cutsB []int) string {
	run := func(cuts []int) outcome {
		if sc.Role == "server" {
			return runServer([]byte(sc.Input), cuts, sc.WithCert)
		}
		return runClient([]byte(sc.Input), cuts)
	}
	oa, ob := run(cutsA), run(cutsB)
	for _, o := range []outcome{oa, ob} {
		if o.Panic != "" {
			return "handshake code panicked: " + o.Panic
		}
		if o.Hang {
			return "handshake did not terminate although the input was exhausted and closed"
		}
	}
	if !same(oa, ob) {
		return fmt.Sprintf("outcome depends on segmentation: cuts %v -> %v ; cuts %v -> %v", cutsA, oa, cutsB, ob)
	}
	switch sc.Class {
	case "VALID":
		if !oa.Established {
			return fmt.Sprintf("well-formed compatible peer was not admitted: %v", oa)
		}
		if oa.Leftover != sc.Pipeline {
			return fmt.Sprintf("bytes pipelined behind the handshake were not handed on unmodified: want %d bytes, got %v", len(sc.Pipeline), oa)
		}
		if sc.Role == "server" && strings.Join(oa.Statuses, ",") != "200,101" {
			return fmt.Sprintf("status sequence %v, want [200 101]", oa.Statuses)
		}
	case "INVALID":
		if oa.Established {
			return fmt.Sprintf("malformed or incompatible peer (%s) was admitted: %v", sc.Mutation, oa)
		}
		if sc.Role == "server" && len(oa.Statuses) > 0 {
			last := oa.Statuses[len(oa.Statuses)-1]
			ok := last == "200" // announce was fine, upgrade request then failed with a close
			for _, w := range sc.WantStatus {
				ok = ok || w == last
			}
			if !ok {
				return fmt.Sprintf("refusal with unexpected status sequence %v (mutation %s)", oa.Statuses, sc.Mutation)
			}
		}
	}
	return ""
}

func TestHandshakeGrammar(t *testing.T) {
	rapid.Check(t, func(rt *rapid.T) {
		var sc scriptCase
		if rapid.IntRange(0, 2).Draw(rt, "role") == 0 {
			sc = genClientScript(rt)
		} else {
			sc = genServerScript(rt)
		}
		cutsA := drawCuts(rt, "cutsA", len(sc.Input))
		cutsB := drawCuts(rt, "cutsB", len(sc.Input))
		msg := judgeCase(sc, cutsA, cutsB)
		nontrivial := sc.Class != "VALID" || len(cutsA)+len(cutsB) >= 2 || sc.Pipeline != ""
		labels := []string{"role:" + sc.Role, "class:" + sc.Class}
		if sc.Mutation != "" {
			labels = append(labels, "mutation:"+sc.Mutation)
		}
		if sc.Pipeline != "" {
			labels = append(labels, "pipelined")
		}
		vlib.Rec.Case(sc.Role+sc.Input+fmt.Sprint(cutsA, cutsB), nontrivial, labels, func() interface{} {
			return map[string]interface{}{"role": sc.Role, "class": sc.Class, "mutation": sc.Mutation, "input": vlib.Hex([]byte(sc.Input)), "cuts_a": cutsA, "cuts_b": cutsB}
		})
		if msg != "" {
			vlib.Rec.Violation(map[string]interface{}{"property": "C06", "case": sc, "cuts_a": cutsA, "cuts_b": cutsB, "problem": msg})
			rt.Fatalf("C06 role=%s class=%s mutation=%s input=%q: %s", sc.Role, sc.Class, sc.Mutation, sc.Input, msg)
		}
	})
}

// TestConcurrentHandshakes: the outcome of a handshake is a function of the bytes exchanged on its own connection.
// 4-16 generated peers (both roles, valid and invalid mixed) are first run one at a time and then all at the same
// instant, over carriers that take 0-2 ms to consume each written message; every peer's concurrent outcome (admission,
// status sequence, bytes handed on) must equal its outcome in isolation.
func TestConcurrentHandshakes(t *testing.T) {
	// each case costs tens of milliseconds (carrier delays): bounded separately from the cheap grammar cases
	budget := int32(vlib.Pick(250, 2500))
	var done int32
	rapid.Check(t, func(rt *rapid.T) {
		if atomic.AddInt32(&done, 1) > budget {
			return
		}
		n := rapid.IntRange(4, 16).Draw(rt, "peers")
		type peer struct {
			sc    scriptCase
			cuts  []int
			delay time.Duration
			alone outcome
			conc  outcome
		}
		peers := make([]*peer, n)
		for i := range peers {
			p := &peer{}
			if rapid.IntRange(0, 2).Draw(rt, "role") == 0 {
				p.sc = genClientScript(rt)
			} else {
				p.sc = genServerScript(rt)
			}
			p.cuts = drawCuts(rt, "cuts", len(p.sc.Input))
			p.delay = time.Duration(rapid.IntRange(0, 2000).Draw(rt, "consumeUs")) * time.Microsecond
			peers[i] = p
		}
		run := func(p *peer) outcome {
			if p.sc.Role == "server" {
				return runServerDelayed([]byte(p.sc.Input), p.cuts, p.sc.WithCert, p.delay)
			}
			return runClientDelayed([]byte(p.sc.Input), p.cuts, p.delay)
		}
		for _, p := range peers {
			p.alone = run(p)
		}
		for round := 0; round < 3; round++ {
			var wg sync.WaitGroup
			start := make(chan struct{})
			for _, p := range peers {
				wg.Add(1)
				go func(p *peer) {
					defer wg.Done()
					<-start
					p.conc = run(p)
				}(p)
			}
			close(start)
			wg.Wait()
			for i, p := range peers {
				if !same(p.alone, p.conc) {
					msg := fmt.Sprintf("peer %d of %d (role %s, class %s, mutation %s): alone -> %v ; with the others at the same time -> %v", i, n, p.sc.Role, p.sc.Class, p.sc.Mutation, p.alone, p.conc)
					vlib.Rec.Violation(map[string]interface{}{"property": "C06", "case": p.sc, "cuts_a": p.cuts, "concurrent_peers": n, "problem": "outcome depends on other connections' handshakes: " + msg})
					rt.Fatalf("C06 concurrent: %s", msg)
				}
			}
		}
		vlib.Rec.Case(fmt.Sprintf("concurrent %d %s", n, peers[0].sc.Input), true, []string{"concurrent-handshakes", fmt.Sprintf("peers:%d", n)}, func() interface{} {
			return map[string]interface{}{"concurrent_peers": n, "first_peer_role": peers[0].sc.Role, "first_peer_class": peers[0].sc.Class}
		})
	})
}

// ---- native fuzz targets (thorough): segmentation invariance + no crash + termination on raw bytes ----------------

func cutsFrom(b []byte) []int {
	c := make([]int, 0, len(b))
	for _, x := range b {
		c = append(c, int(x)%97+1)
	}
	return c
}

var seedServer = "X-SOCKETACE / HTTP/1.1\r\nAccepts-Protocol-Version: " + version.ProtocolVersion + "\r\nUser-Agent: socketace/x\r\n\r\nGET / HTTP/1.1\r\nUser-Agent: socketace/x\r\nUpgrade: socketace/" + version.ProtocolVersion + "\r\nConnection: upgrade\r\n\r\npayload"
var seedClient = "HTTP/1.1 200 OK\r\nServer: socketace/x\r\nProtocol-Version: " + version.ProtocolVersion + "\r\n\r\nHTTP/1.1 101 Switching Protocols\r\nConnection: upgrade\r\nUpgrade: socketace/" + version.ProtocolVersion + "\r\n\r\npayload"

func fuzzOne(t *testing.T, role string, data, cutBytes []byte) {
	sc := scriptCase{Role: role, Class: "GARBAGE", Input: string(data)}
	if msg := judgeCase(sc, nil, cutsFrom(cutBytes)); msg != "" {
		t.Fatalf("C06 fuzz role=%s input=%q cuts=%v: %s", role, data, cutsFrom(cutBytes), msg)
	}
	vlib.Rec.Case(role+string(data), true, []string{"fuzz:" + role}, nil)
}

func FuzzServerHandshake(f *testing.F) {
	f.Add([]byte(seedServer), []byte{1, 2, 3})
	f.Add([]byte("X-SOCKETACE"), []byte{})
	f.Add([]byte(" \r\n\r\n"), []byte{0})
	f.Add([]byte{}, []byte{})
	f.Fuzz(func(t *testing.T, data, cuts []byte) { fuzzOne(t, "server", data, cuts) })
}

func FuzzClientHandshake(f *testing.F) {
	f.Add([]byte(seedClient), []byte{1, 2, 3})
	f.Add([]byte("HTTP/1.1 200"), []byte{})
	f.Add([]byte(" \r\n\r\n"), []byte{0})
	f.Add([]byte{}, []byte{})
	f.Fuzz(func(t *testing.T, data, cuts []byte) { fuzzOne(t, "client", data, cuts) })
}
