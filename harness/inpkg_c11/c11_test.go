//go:build verif

package dns

import (
	"fmt"
	"net"
	"runtime/debug"
	"sort"
	"strings"
	"sync"
	"testing"
	"time"

	"github.com/bokysan/socketace/v2/internal/streams/dns/util"
	vlib "github.com/bokysan/socketace/v2/internal/zzverif/vcore"
	mdns "github.com/miekg/dns"
	"pgregory.net/rapid"
)

func TestMain(m *testing.M) { vlib.Main(m) }

var typeNames = map[uint16]string{uint16(util.QueryTypeNull): "NULL", uint16(util.QueryTypePrivate): "PRIVATE", uint16(util.QueryTypeTxt): "TXT", uint16(util.QueryTypeSrv): "SRV",
	uint16(util.QueryTypeMx): "MX", uint16(util.QueryTypeCname): "CNAME", uint16(util.QueryTypeAAAA): "AAAA", uint16(util.QueryTypeA): "A"}

var allTypes = []uint16{uint16(util.QueryTypeNull), uint16(util.QueryTypePrivate), uint16(util.QueryTypeTxt), uint16(util.QueryTypeSrv), uint16(util.QueryTypeMx), uint16(util.QueryTypeCname), uint16(util.QueryTypeAAAA), uint16(util.QueryTypeA)}

type pathDesc struct {
	Case      string   `json:"qname_case"`
	SevenBit  string   `json:"eight_bit_names"`
	Answered  []string `json:"answered_record_types"` // empty = all
	SizeLimit int      `json:"answer_size_limit"`
	Truncate  bool     `json:"oversize_answers_are_truncated_not_dropped,omitempty"`
	StripEdns bool     `json:"strip_edns0"`
	Domain    string   `json:"domain"`
}

func (p pathDesc) behaviour(seed uint64) *pathBehaviour {
	b := &pathBehaviour{Case: p.Case, SevenBit: p.SevenBit, SizeLimit: p.SizeLimit, Truncate: p.Truncate, StripEdns0: p.StripEdns, rnd: seed | 1}
	if len(p.Answered) > 0 {
		b.Answered = map[uint16]bool{}
		for t, n := range typeNames {
			for _, a := range p.Answered {
				if a == n {
					b.Answered[t] = true
				}
			}
		}
	}
	return b
}

func (p pathDesc) transparent() bool {
	return p.Case == "" && p.SevenBit == "" && len(p.Answered) == 0 && p.SizeLimit == 0 && !p.StripEdns
}

type negotiated struct {
	QType, Up, Down  string
	FragUp, FragDown uint32
	Edns0, Lazy      bool
	Queries          int
}

// runHandshake runs the real Handshake() over the simulated path. It reports non-termination by a query counter
// and a wall-clock bound (the simulated path never sleeps for the time-outs it is handed).
func runHandshake(p pathDesc, seed uint64) (client *ClientDnsConnection, user *userConnection, srv *ServerDnsListener, comm *simClient, herr error, panicMsg string, nonTermination string) {
	ss := &simServer{}
	srv = NewServerDnsListener(p.Domain, ss)
	comm = newSimClient(ss, &net.UDPAddr{IP: net.IPv4(10, 1, 1, 1), Port: 1053})
	comm.path = p.behaviour(seed)
	client, err := NewClientDnsConnection(p.Domain, comm)
	if err != nil {
		return nil, nil, srv, comm, err, "", ""
	}
	type res struct {
		err error
		p   string
	}
	done := make(chan res, 1)
	go func() {
		var r res
		defer func() {
			if x := recover(); x != nil {
				r.p = fmt.Sprint(x) + " at " + panicSite()
			}
			done <- r
		}()
		r.err = client.Handshake()
	}()
	deadline := time.After(60 * time.Second)
	tick := time.NewTicker(20 * time.Millisecond)
	defer tick.Stop()
	for {
		select {
		case r := <-done:
			if r.p != "" {
				return client, nil, srv, comm, nil, r.p, ""
			}
			if r.err == nil {
				c, aerr := srv.Accept()
				if aerr == nil {
					user = c.(*userConnection)
				}
			}
			return client, user, srv, comm, r.err, "", ""
		case <-tick.C:
			comm.mu.Lock()
			n, last := comm.Exchanges, comm.lastQ
			comm.mu.Unlock()
			if n > 20000 {
				comm.closed = true // lets the runaway loop end
				return client, nil, srv, comm, nil, "", fmt.Sprintf("more than 20000 queries without returning; it keeps repeating %q", last)
			}
		case <-deadline:
			comm.closed = true
			return client, nil, srv, comm, nil, "", "no return within 60 s"
		}
	}
}

func drawPath(rt *rapid.T) pathDesc {
	p := pathDesc{}
	p.Domain = []string{"example.org", "t.co", "tunnel.some-company.example.com", strings.Repeat("d", 50) + ".net"}[rapid.IntRange(0, 3).Draw(rt, "domain")]
	p.Case = []string{"", "", "lower", "upper", "random"}[rapid.IntRange(0, 4).Draw(rt, "case")]
	p.SevenBit = []string{"", "", "servfail", "mangle"}[rapid.IntRange(0, 3).Draw(rt, "sevenBit")]
	switch rapid.IntRange(0, 3).Draw(rt, "answeredKind") {
	case 0:
	case 1:
		// a single record type
		p.Answered = []string{typeNames[allTypes[rapid.IntRange(0, 7).Draw(rt, "only")]]}
	default:
		mask := rapid.IntRange(1, 254).Draw(rt, "mask")
		for i, t := range allTypes {
			if mask&(1<<uint(i)) != 0 {
				p.Answered = append(p.Answered, typeNames[t])
			}
		}
	}
	p.SizeLimit = []int{0, 0, 512, 1232, 4096}[rapid.IntRange(0, 4).Draw(rt, "size")]
	if p.SizeLimit != 0 && rapid.IntRange(0, 2).Draw(rt, "sizeAny") == 0 {
		p.SizeLimit = rapid.IntRange(300, 8192).Draw(rt, "sizeLimit")
	}
	if p.SizeLimit != 0 {
		p.Truncate = rapid.Bool().Draw(rt, "truncate")
	}
	p.StripEdns = rapid.IntRange(0, 3).Draw(rt, "stripEdns") == 0
	sort.Strings(p.Answered)
	return p
}

func judgePath(p pathDesc, seed uint64, sizes []int) (sig, msg string, neg *negotiated) {
	return judgePathWalk(p, seed, sizes, 0)
}

// judgePathWalk: after the listed sizes every length 1..walkTo is moved each way as one write (the negotiated record
// type and codec have their own boundary lengths: last record of an answer, label and string limits, padding).
func judgePathWalk(p pathDesc, seed uint64, sizes []int, walkTo int) (sig, msg string, neg *negotiated) {
	client, user, srv, comm, herr, pmsg, nonterm := runHandshake(p, seed)
	defer func() {
		if client != nil {
			comm.path = nil // let the close messages through whatever the path did
			done := make(chan struct{})
			go func() { defer close(done); defer func() { recover() }(); client.Close() }()
			select {
			case <-done:
			case <-time.After(5 * time.Second):
				comm.closed = true
			}
		}
		srv.Close()
	}()
	if pmsg != "" {
		return "handshake-panic", "the handshake panicked (it terminates only by returning): " + pmsg, nil
	}
	if nonterm != "" {
		return "handshake-does-not-terminate", "the handshake does not terminate: " + nonterm, nil
	}
	if herr != nil {
		return "", "", nil // reported failure: acceptable
	}
	if user == nil {
		return "handshake-success-without-session", "the handshake reported success but the server has no session for it", nil
	}
	s := client.Serializer
	neg = &negotiated{QType: typeNames[uint16(*s.Upstream.QueryType)], FragUp: s.Upstream.FragmentSize, FragDown: s.Downstream.FragmentSize, Edns0: s.UseEdns0, Lazy: client.lazymode, Queries: comm.Exchanges}
	if s.Upstream.Encoder == nil || s.Downstream.Encoder == nil {
		return "handshake-success-without-codec", "the handshake reported success but left a codec unset", neg
	}
	neg.Up, neg.Down = s.Upstream.Encoder.Name(), s.Downstream.Encoder.Name()
	if neg.FragUp == 0 || neg.FragDown == 0 {
		return "negotiated-parameters-do-not-work", fmt.Sprintf("the handshake reported success with a zero fragment size (%+v)", *neg), neg
	}
	for i, n := range sizes {
		up := vlib.PRF(seed+uint64(i)*2, 0, n)
		down := vlib.PRF(seed+uint64(i)*2+1, 0, n)
		if i%2 == 1 {
			for k := range up { // every byte value, zeros and 0xFF runs
				up[k] = byte(k)
				down[k] = byte(255 - k%256)
			}
		}
		if e := exchange(client, user, up, down, 30*time.Second); e != "" {
			return "negotiated-parameters-do-not-work", fmt.Sprintf("the handshake reported success (%+v) but %d bytes each way do not arrive intact over the same path: %s", *neg, n, e), neg
		}
	}
	for n := 1; n <= walkTo; n++ {
		up := vlib.PRF(seed+uint64(n)*3, 0, n)
		down := vlib.PRF(seed+uint64(n)*3+1, 0, n)
		if e := exchange(client, user, up, down, 20*time.Second); e != "" {
			return "negotiated-parameters-do-not-work", fmt.Sprintf("the handshake reported success (%+v) but a write of %d bytes each way (after every smaller length) does not arrive intact over the same path: %s", *neg, n, e), neg
		}
	}
	return "", "", neg
}

func TestNegotiationOnlySettlesOnWhatWorks(t *testing.T) {
	rapid.Check(t, func(rt *rapid.T) {
		p := drawPath(rt)
		seed := rapid.Uint64().Draw(rt, "seed")
		nsizes := rapid.IntRange(1, 3).Draw(rt, "nsizes")
		var sizes []int
		for i := 0; i < nsizes; i++ {
			sizes = append(sizes, rapid.IntRange(1, 5000).Draw(rt, "size"))
		}
		sig, msg, neg := judgePath(p, seed, sizes)
		labels := []string{"case:" + p.Case, "sevenbit:" + p.SevenBit, fmt.Sprintf("types:%d", len(p.Answered)), fmt.Sprintf("sizelimit:%v", p.SizeLimit != 0), fmt.Sprintf("truncating:%v", p.Truncate)}
		outcome := "handshake-failed"
		if neg != nil {
			outcome = "negotiated"
			labels = append(labels, "qtype:"+neg.QType, "up:"+neg.Up, "down:"+neg.Down)
			if neg.FragDown < 768 {
				labels = append(labels, "fragdown<768")
			}
		}
		labels = append(labels, "outcome:"+outcome)
		vlib.Rec.Case(fmt.Sprintf("%+v", p), !p.transparent(), labels, func() interface{} {
			return map[string]interface{}{"path": p, "negotiated": neg, "outcome": outcome}
		})
		if sig != "" {
			full := fmt.Sprintf("path %+v: %s", p, msg)
			if vlib.IsKnown("C11", sig) {
				vlib.Rec.Known(sig, map[string]interface{}{"path": p, "problem": msg})
				return
			}
			vlib.Rec.Violation(map[string]interface{}{"property": "C11", "signature": sig, "path": p, "negotiated": neg, "problem": msg})
			rt.Fatalf("C11 [%s] %s", sig, full)
		}
	})
}

// TestEveryRecordTypeSubset enumerates the 255 non-empty subsets of answered record types on an otherwise
// transparent path (thorough; the quick tier takes the 8 single-type paths and the full set).
func TestEveryRecordTypeSubset(t *testing.T) {
	shard, shards := vlib.Shard()
	var masks []int
	if vlib.Thorough() {
		for m := 1; m <= 255; m++ {
			masks = append(masks, m)
		}
	} else {
		masks = []int{1, 2, 4, 8, 16, 32, 64, 128, 255, 0xC0, 0x30}
	}
	type result struct {
		p        pathDesc
		sig, msg string
		neg      *negotiated
	}
	var todo []int
	for i, mask := range masks {
		if i%shards == shard {
			todo = append(todo, mask)
		}
	}
	results := make([]result, len(todo))
	var wg sync.WaitGroup
	sem := make(chan struct{}, 12) // the paths are independent listeners over their own simulated wires
	for i, mask := range todo {
		wg.Add(1)
		go func(i, mask int) {
			defer wg.Done()
			sem <- struct{}{}
			defer func() { <-sem }()
			p := pathDesc{Domain: "example.org"}
			for k, tp := range allTypes {
				if mask&(1<<uint(k)) != 0 {
					p.Answered = append(p.Answered, typeNames[tp])
				}
			}
			sort.Strings(p.Answered)
			walk := 0
			if mask&(mask-1) == 0 || mask == 255 {
				// single answered type (the path forces that type) and the transparent path: every write length
				walk = vlib.Pick(450, 2600)
			}
			r := result{p: p}
			r.sig, r.msg, r.neg = judgePathWalk(p, uint64(mask)+7, []int{1, 700, 2500}, walk)
			results[i] = r
		}(i, mask)
	}
	wg.Wait()
	for _, r := range results {
		p, sig, msg, neg := r.p, r.sig, r.msg, r.neg
		outcome := "handshake-failed"
		if neg != nil {
			outcome = "negotiated:" + neg.QType
		}
		vlib.Rec.Case(fmt.Sprintf("subset %v", p.Answered), true, []string{"record-type-subset", "outcome:" + outcome}, func() interface{} {
			return map[string]interface{}{"path": p, "negotiated": neg}
		})
		if sig != "" {
			if vlib.IsKnown("C11", sig) {
				vlib.Rec.Known(sig, map[string]interface{}{"path": p, "problem": msg})
				continue
			}
			vlib.Rec.Violation(map[string]interface{}{"property": "C11", "signature": sig, "path": p, "negotiated": neg, "problem": msg})
			t.Errorf("C11 [%s] answered types %v: %s", sig, p.Answered, msg)
		}
	}
	vlib.Rec.Exhaustive("every non-empty subset of the 8 record types answered, otherwise transparent path (thorough only; union over shards)", vlib.Thorough())
}

var _ = mdns.TypeA

// TestSizeLimitedPaths enumerates paths that answer one record type only and limit the answer size - by dropping oversize
// answers or, the standard way, by leaving trailing records out and setting TC - for the limits named in the property.
func TestSizeLimitedPaths(t *testing.T) {
	type result struct {
		p        pathDesc
		sig, msg string
		neg      *negotiated
	}
	var paths []pathDesc
	for _, ty := range []string{"CNAME", "MX", "SRV", "TXT", "NULL", "PRIVATE"} {
		for _, limit := range []int{512, 1232, 4096, 5000, 8192} {
			for _, trunc := range []bool{false, true} {
				paths = append(paths, pathDesc{Domain: "example.org", Answered: []string{ty}, SizeLimit: limit, Truncate: trunc})
			}
		}
	}
	results := make([]result, len(paths))
	var wg sync.WaitGroup
	sem := make(chan struct{}, 12)
	for i, p := range paths {
		wg.Add(1)
		go func(i int, p pathDesc) {
			defer wg.Done()
			sem <- struct{}{}
			defer func() { <-sem }()
			r := result{p: p}
			r.sig, r.msg, r.neg = judgePath(p, uint64(1000+i), []int{1, 700, 3000, 9000})
			results[i] = r
		}(i, p)
	}
	wg.Wait()
	for _, r := range results {
		p, sig, msg, neg := r.p, r.sig, r.msg, r.neg
		outcome := "handshake-failed"
		if neg != nil {
			outcome = "negotiated:" + neg.QType
		}
		vlib.Rec.Case(fmt.Sprintf("size-limited %+v", p), true, []string{"size-limited-path", fmt.Sprintf("truncating:%v", p.Truncate), "outcome:" + outcome}, func() interface{} {
			return map[string]interface{}{"path": p, "negotiated": neg}
		})
		if sig != "" {
			if vlib.IsKnown("C11", sig) {
				vlib.Rec.Known(sig, map[string]interface{}{"path": p, "problem": msg})
				continue
			}
			vlib.Rec.Violation(map[string]interface{}{"property": "C11", "signature": sig, "path": p, "negotiated": neg, "problem": msg})
			t.Errorf("C11 [%s] %+v: %s", sig, p, msg)
		}
	}
}

// panicSite names the innermost socketace frames of the panicking goroutine's stack.
func panicSite() string {
	var site []string
	for _, l := range strings.Split(string(debug.Stack()), "\n") {
		if strings.HasPrefix(l, "\t") && strings.Contains(l, "/internal/") && !strings.Contains(l, "zz_verif") {
			f := strings.TrimSpace(l)
			if i := strings.Index(f, " +0x"); i > 0 {
				f = f[:i]
			}
			site = append(site, f[strings.LastIndex(f, "/internal/")+1:])
			if len(site) == 3 {
				break
			}
		}
	}
	return strings.Join(site, " <- ")
}
