//go:build verif

// Package c14b is the second unit of check C14: the one ending of a physical session that needs a minute of real time in
// every tier - a carrier that stays open and falls silent - runs in its own process next to the histories of c14.
package c14b

import (
	"fmt"
	"runtime/debug"
	"testing"
	"time"

	"github.com/bokysan/socketace/v2/internal/zzverif/vlib"
	_ "pgregory.net/rapid" // the driver passes the rapid flags to every unit
)

const slack = 3

func TestMain(m *testing.M) { vlib.Main(m) }

// TestSilentCarrier: two pairs (socket and websocket carrier, through relays) each establish their session and use it;
// then the relays stop passing anything in either direction while all connections stay open. Neither side is told
// anything: only the multiplexer's keep-alive (every 10 s, given up after 30 s) can end these sessions, and it has to,
// on the client and on the server - 85 s later the process must be back at the footprint it had before the sessions
// existed, and must not be busy.
func TestSilentCarrier(t *testing.T) {
	defer debug.SetGCPercent(debug.SetGCPercent(-1))
	carriers := []string{vlib.CarTCP, vlib.CarHTTP}
	var pairs []*vlib.Pair
	var tgts []*vlib.Target
	defer func() {
		for _, p := range pairs {
			p.Close()
		}
		for _, tg := range tgts {
			tg.Close()
		}
	}()
	for _, car := range carriers {
		tgt := vlib.NewTarget("data", vlib.EchoHandler)
		tgts = append(tgts, tgt)
		p, err := vlib.StartPair(vlib.PairConfig{Carrier: car, ClientInsecure: true, ViaRelay: true,
			Channels:  []vlib.ChannelSpec{{Name: "data", Target: tgt.URL()}},
			Listeners: []vlib.ListenerSpec{{Channel: "data"}}})
		if err != nil {
			if vlib.IsBindError(err) {
				vlib.Rec.Inconclusive("bind")
				return
			}
			t.Fatalf("pair start (%s): %v", car, err)
		}
		pairs = append(pairs, p)
	}
	fresh := vlib.Quiesce(5 * time.Second)
	for i, p := range pairs {
		for k := 0; k < 3; k++ {
			c, err := p.Dial("data")
			if err != nil {
				t.Fatalf("dial (%s): %v", carriers[i], err)
			}
			c.SetDeadline(time.Now().Add(10 * time.Second))
			msg := vlib.PRF(uint64(7+k), 0, 2000)
			c.Write(msg)
			got, _ := vlib.ReadFullTimeout(c, len(msg), 10*time.Second)
			c.Close()
			if vlib.FirstDiff(got, msg) != -1 {
				t.Fatalf("warm-up connection over %s did not echo", carriers[i])
			}
		}
	}
	idle := vlib.Quiesce(5 * time.Second)
	for _, p := range pairs {
		p.Relay.DelayUp, p.Relay.DelayDown = time.Hour, time.Hour
	}
	// each silenced relay keeps its own two sockets and two copy loops (asleep with the last keep-alive frame in hand)
	// for as long as its delay lasts: those are the harness's, and they are known
	held := 2 * len(pairs)
	limit := vlib.Footprint{Goroutines: fresh.Goroutines + held + slack, FDs: fresh.FDs + held + slack}
	t0 := time.Now()
	after := vlib.QuiesceBelow(limit, 85*time.Second)
	took := time.Since(t0)
	cpu := vlib.IdleCPU(2 * time.Second)
	d := map[string]interface{}{"carriers": carriers, "before_first_session": fresh.String(), "with_sessions": idle.String(), "after_silence": after.String(), "seconds_until_reclaimed": took.Seconds(), "idle_cpu": cpu}
	vlib.Rec.Case("silent-carrier", true, []string{"ending:silent", "second-unit"}, func() interface{} { return d })
	fail := func(msg string) {
		vlib.Rec.Violation(map[string]interface{}{"property": "C14", "silent_carrier": d, "problem": msg, "goroutines": vlib.GoroutineSummary(14), "descriptors": vlib.FDSummary(), "goroutine_dump": vlib.DumpGoroutines("c14b-silent")})
		t.Errorf("C14 %v: %s\ngoroutines: %v", d, msg, vlib.GoroutineSummary(14))
	}
	if after.Goroutines > limit.Goroutines || after.FDs > limit.FDs {
		fail(fmt.Sprintf("85 s after the carriers of two sessions fell silent (keep-alive gives up after 30 s) the footprint %v stays above the footprint %v the ends had before their sessions plus the %d sockets and copy loops the silenced relays hold (with the sessions: %v)", after, fresh, held, idle))
	}
	if cpu > 0.25 {
		fail(fmt.Sprintf("after the silent sessions ended the process uses %.0f%% of a core while idle", cpu*100))
	}
}
