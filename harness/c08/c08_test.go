//go:build verif

package c08

import (
	"bytes"
	"fmt"
	"math"
	"sync"
	"sync/atomic"
	"testing"

	"github.com/bokysan/socketace/v2/internal/util/enc"
	"github.com/bokysan/socketace/v2/internal/zzverif/vlib"
	"pgregory.net/rapid"
)

func TestMain(m *testing.M) { vlib.Main(m) }

type codec struct {
	name string
	e    enc.Encoder
	raw  bool
}

var codecs = []codec{
	{"Base32", enc.Base32Encoding, false},
	{"Base64", enc.Base64Encoding, false},
	{"Base64u", enc.Base64uEncoding, false},
	{"Base85", enc.Base85Encoding, false},
	{"Base91", enc.Base91Encoding, false},
	{"Base128", enc.Base128Encoding, false},
	{"Base192", enc.Base192Encoding, false},
	{"Raw", enc.RawEncoding, true},
}

// Slack is the constant the length bound allows on top of ceil(Ratio*len): getUpstreamMtu reserves 10 bytes
// for a 5-byte packet header, so up to 4 surplus characters (after scaling by at most 1.6) keep budgets safe.
const Slack = 4

// judge evaluates the three clauses of C08 on one (codec, input) pair and returns a description of what
// failed, or "".
func judge(c codec, in []byte) (failure string) {
	defer func() {
		if r := recover(); r != nil {
			failure = fmt.Sprintf("panic: %v", r)
		}
	}()
	orig := append([]byte(nil), in...)
	out := c.e.Encode(in)
	if !bytes.Equal(in, orig) {
		return "Encode mutated its input"
	}
	// keep a private copy: Decode must not be helped by aliasing
	outCopy := append([]byte(nil), out...)
	if !c.raw {
		for i, b := range out {
			if b == '.' || b == '\\' || b == ' ' || b < 0x20 || b == 0x7f {
				return fmt.Sprintf("output byte %d is 0x%02x (not DNS-safe)", i, b)
			}
		}
		bound := int(math.Ceil(c.e.Ratio()*float64(len(in)))) + Slack
		if len(out) > bound {
			return fmt.Sprintf("output length %d exceeds ceil(%.4f*%d)+%d=%d", len(out), c.e.Ratio(), len(in), Slack, bound)
		}
	}
	dec, err := c.e.Decode(outCopy)
	if err != nil {
		return fmt.Sprintf("Decode(Encode(x)) error: %v", err)
	}
	if !bytes.Equal(dec, orig) {
		return fmt.Sprintf("Decode(Encode(x)) != x: got %s", vlib.Hex(dec))
	}
	return ""
}

// check runs judge, applies the known-findings file and records the case. It returns a non-empty string only
// for a violation that is not listed.
func check(c codec, in []byte, class string) string {
	f := judge(c, in)
	key := c.name + "/" + string(in)
	vlib.Rec.Case(key, len(in) >= 1, []string{"codec:" + c.name, "class:" + class, lenBucket(len(in))}, func() interface{} {
		return map[string]interface{}{"codec": c.name, "class": class, "len": len(in), "input": vlib.Hex(in)}
	})
	if f == "" {
		return ""
	}
	sig := "codec=" + c.name
	if vlib.IsKnown("C08", sig) {
		vlib.Rec.Known(sig, map[string]interface{}{"codec": c.name, "input": vlib.Hex(in), "failure": f})
		return ""
	}
	return fmt.Sprintf("codec=%s len=%d input=%s: %s", c.name, len(in), vlib.Hex(in), f)
}

func lenBucket(n int) string {
	switch {
	case n == 0:
		return "len:0"
	case n <= 2:
		return "len:1-2"
	case n <= 16:
		return "len:3-16"
	case n <= 256:
		return "len:17-256"
	case n <= 4096:
		return "len:257-4096"
	default:
		return "len:>4096"
	}
}

func report(t *testing.T, c codec, in []byte, msg string) {
	vlib.Rec.Violation(map[string]interface{}{"property": "C08", "codec": c.name, "input_hex": fmt.Sprintf("%x", in), "failure": msg})
	t.Errorf("%s", msg)
}

// TestExhaustiveShort enumerates every byte string of length 0..2 for every codec.
func TestExhaustiveShort(t *testing.T) {
	for _, c := range codecs {
		failed := false
		try := func(in []byte) {
			if failed {
				return
			}
			if msg := check(c, in, "exhaustive"); msg != "" {
				failed = true
				report(t, c, in, msg)
			}
		}
		try([]byte{})
		for a := 0; a < 256; a++ {
			try([]byte{byte(a)})
		}
		for a := 0; a < 256; a++ {
			for b := 0; b < 256; b++ {
				try([]byte{byte(a), byte(b)})
			}
		}
	}
	vlib.Rec.Exhaustive("all byte strings of length 0..2, every codec", true)
}

func structured(n int) map[string][]byte {
	m := map[string][]byte{}
	m["zeros"] = make([]byte, n)
	m["ones"] = bytes.Repeat([]byte{0xff}, n)
	cnt := make([]byte, n)
	for i := range cnt {
		cnt[i] = byte(i)
	}
	m["counter"] = cnt
	if n > 0 {
		sb := make([]byte, n)
		sb[(n*7/11)%n] = 1 << uint(n%8)
		m["singlebit"] = sb
		m["repeat"] = bytes.Repeat([]byte{byte(n*37 + 11)}, n)
		alt := make([]byte, n)
		for i := range alt {
			if i%2 == 0 {
				alt[i] = 0x55
			} else {
				alt[i] = 0xaa
			}
		}
		m["alternating"] = alt
	}
	return m
}

var structuredOrder = []string{"zeros", "ones", "counter", "singlebit", "repeat", "alternating"}

// TestStructuredLengths runs every length 0..N with structured content.
func TestStructuredLengths(t *testing.T) {
	maxLen := vlib.Pick(2048, 8192)
	for _, c := range codecs {
		failed := false
		for n := 0; n <= maxLen && !failed; n++ {
			s := structured(n)
			for _, k := range structuredOrder {
				in, ok := s[k]
				if !ok {
					continue
				}
				if msg := check(c, in, "structured:"+k); msg != "" {
					failed = true
					report(t, c, in, msg)
					break
				}
			}
		}
	}
}

// TestRandom draws codec and content from rapid.
func TestRandom(t *testing.T) {
	maxLen := vlib.Pick(8192, 65536)
	rapid.Check(t, func(rt *rapid.T) {
		c := codecs[rapid.IntRange(0, len(codecs)-1).Draw(rt, "codec")]
		var in []byte
		switch rapid.IntRange(0, 3).Draw(rt, "shape") {
		case 0:
			in = rapid.SliceOfN(rapid.Byte(), 0, 64).Draw(rt, "bytes")
		case 1:
			in = rapid.SliceOfN(rapid.Byte(), 0, maxLen).Draw(rt, "bytes")
		case 2:
			// few distinct byte values (runs) - exercises zero-group shortcuts and padding paths
			alpha := rapid.SliceOfN(rapid.Byte(), 1, 3).Draw(rt, "alphabet")
			n := rapid.IntRange(0, 600).Draw(rt, "n")
			in = make([]byte, n)
			for i := range in {
				in[i] = alpha[rapid.IntRange(0, len(alpha)-1).Draw(rt, "i")]
			}
		default:
			// length near a multiple of the codec block sizes 3,4,5,7,13,15
			blk := []int{3, 4, 5, 7, 13, 15}[rapid.IntRange(0, 5).Draw(rt, "blk")]
			n := blk*rapid.IntRange(0, 300).Draw(rt, "k") + rapid.IntRange(-1, 1).Draw(rt, "d")
			if n < 0 {
				n = 0
			}
			in = rapid.SliceOfN(rapid.Byte(), n, n).Draw(rt, "bytes")
		}
		if msg := check(c, in, "random"); msg != "" {
			vlib.Rec.Violation(map[string]interface{}{"property": "C08", "codec": c.name, "input_hex": fmt.Sprintf("%x", in), "failure": msg})
			rt.Fatalf("%s", msg)
		}
	})
}

// FuzzCodecs is the native coverage-guided target used by the thorough tier (round-trip oracle inside).
// TestBatchesAndConcurrency: the codecs are process-wide objects used by every DNS query handler at once, and what
// Encode/Decode return belongs to the caller. (1) a batch of inputs is encoded keeping the returned slices, and only
// then each retained encoding is decoded (and likewise for retained decodings); (2) several goroutines do round trips
// at the same time, each copying its result at once as the tunnel code does. Every round trip must still be exact.
func TestBatchesAndConcurrency(t *testing.T) {
	budget := int32(vlib.Pick(400, 6000))
	var ran int32
	rapid.Check(t, func(rt *rapid.T) {
		if atomic.AddInt32(&ran, 1) > budget {
			return
		}
		c := codecs[rapid.IntRange(0, len(codecs)-1).Draw(rt, "codec")]
		n := rapid.IntRange(2, 12).Draw(rt, "batch")
		ins := make([][]byte, n)
		for i := range ins {
			ins[i] = rapid.SliceOfN(rapid.Byte(), 0, 300).Draw(rt, "input")
		}
		concurrent := rapid.Bool().Draw(rt, "concurrent")
		sig := "codec=" + c.name
		fail := func(i int, msg string) {
			full := fmt.Sprintf("codec=%s batch of %d (concurrent=%v), input %d = %s: %s", c.name, n, concurrent, i, vlib.Hex(ins[i]), msg)
			if vlib.IsKnown("C08", sig) {
				vlib.Rec.Known(sig, map[string]interface{}{"codec": c.name, "input": vlib.Hex(ins[i]), "failure": msg})
				return
			}
			vlib.Rec.Violation(map[string]interface{}{"property": "C08", "codec": c.name, "input_hex": fmt.Sprintf("%x", ins[i]), "batch": n, "concurrent": concurrent, "failure": msg})
			rt.Fatalf("%s", full)
		}
		vlib.Rec.Case(fmt.Sprintf("batch|%s|%v|%x", c.name, concurrent, ins), true, []string{"codec:" + c.name, "class:batch", fmt.Sprintf("concurrent:%v", concurrent)}, func() interface{} {
			return map[string]interface{}{"codec": c.name, "batch": n, "concurrent": concurrent}
		})
		if !concurrent {
			outs := make([][]byte, n)
			for i := range ins {
				outs[i] = c.e.Encode(ins[i])
			}
			decs := make([][]byte, n)
			for i := range ins {
				d, err := c.e.Decode(outs[i])
				if err != nil {
					fail(i, fmt.Sprintf("the encoding kept while %d further inputs were encoded no longer decodes: %v", n-1-i, err))
					return
				}
				decs[i] = d
			}
			for i := range ins {
				if !bytes.Equal(decs[i], ins[i]) {
					fail(i, fmt.Sprintf("the encoding/decoding kept while the rest of the batch was processed decodes to %s", vlib.Hex(decs[i])))
					return
				}
			}
			return
		}
		bad := make([]string, n)
		var wg sync.WaitGroup
		for i := range ins {
			wg.Add(1)
			go func(i int) {
				defer wg.Done()
				defer func() {
					if r := recover(); r != nil {
						bad[i] = fmt.Sprint("panic: ", r)
					}
				}()
				for k := 0; k < 150 && bad[i] == ""; k++ {
					out := append([]byte(nil), c.e.Encode(ins[i])...)
					d, err := c.e.Decode(out)
					if err != nil {
						bad[i] = "round trip at the same time as others: " + err.Error()
					} else if !bytes.Equal(append([]byte(nil), d...), ins[i]) {
						bad[i] = "round trip at the same time as others gives " + vlib.Hex(d)
					}
				}
			}(i)
		}
		wg.Wait()
		for i := range ins {
			if bad[i] != "" {
				fail(i, bad[i])
				return
			}
		}
	})
}

func FuzzCodecs(f *testing.F) {
	f.Add(uint8(0), []byte{})
	f.Add(uint8(3), []byte{0, 0, 0, 0})
	f.Add(uint8(3), []byte("hello world, this is a test"))
	f.Add(uint8(5), []byte{1, 2, 3, 4, 5, 6, 7})
	f.Add(uint8(4), bytes.Repeat([]byte{0xff}, 13))
	f.Fuzz(func(t *testing.T, ci uint8, in []byte) {
		c := codecs[int(ci)%len(codecs)]
		if msg := check(c, in, "fuzz"); msg != "" {
			t.Fatalf("%s", msg)
		}
	})
}
