//go:build verif

package c01

import (
	"bytes"
	"fmt"
	"io"
	"os"
	"strings"
	"sync"
	"sync/atomic"
	"testing"
	"time"

	"github.com/bokysan/socketace/v2/internal/socketace"
	"github.com/bokysan/socketace/v2/internal/zzverif/vlib"
	"pgregory.net/rapid"
)

func TestMain(m *testing.M) { vlib.Main(m) }

type config struct {
	name    string
	carrier string
	sec     string // plain, starttls, tls, secret
}

var configs = []config{
	{"tcp/plain", vlib.CarTCP, "plain"},
	{"tcp/starttls", vlib.CarTCP, "starttls"},
	{"tcp/tls", vlib.CarTCPTLS, "tls"},
	{"unix/plain", vlib.CarUnix, "plain"},
	{"unix/starttls", vlib.CarUnix, "starttls"},
	{"unix/tls", vlib.CarUnixTLS, "tls"},
	{"http/plain", vlib.CarHTTP, "plain"},
	{"http/starttls", vlib.CarHTTP, "starttls"},
	{"https/tls", vlib.CarHTTPS, "tls"},
	{"stdio/plain", vlib.CarStdio, "plain"},
	{"stdio/starttls", vlib.CarStdio, "starttls"},
	{"stdio/tls", vlib.CarStdioTLS, "tls"},
	{"udp/plain", vlib.CarUDP, "plain"},
	{"udp/starttls", vlib.CarUDP, "starttls"},
	{"udp/secret", vlib.CarUDP, "secret"},
	{"dns/plain", vlib.CarDNS, "plain"},
	{"dns/starttls", vlib.CarDNS, "starttls"},
}

var (
	decoyOnce sync.Once
	decoyTgt  *vlib.Target
)

// decoy is the target of two further channels the server offers next to "data" (one listed before, one after it):
// "delivered to the channel's target service" also means to no other channel's.
func decoy() *vlib.Target {
	decoyOnce.Do(func() { decoyTgt = vlib.NewTarget("decoy", vlib.EchoHandler) })
	return decoyTgt
}

// listenersFor: besides the listener in use the client has one for a channel the server does not offer ("nochan"): a
// request for it is refused, which must stay that request's own business.
func listenersFor(stdioListener bool) []vlib.ListenerSpec {
	if stdioListener {
		return []vlib.ListenerSpec{{Channel: "data", Stdio: true}}
	}
	return []vlib.ListenerSpec{{Channel: "data"}, {Channel: "nochan"}}
}

func pairConfig(c config, tgt *vlib.Target, stdioListener bool) vlib.PairConfig {
	pc := vlib.PairConfig{
		Carrier:        c.carrier,
		ClientInsecure: true, // verification is C05's subject
		Channels:       []vlib.ChannelSpec{{Name: "aaa", Target: decoy().URL()}, {Name: "data", Target: tgt.URL()}, {Name: "zzz", Target: decoy().URL()}},
		Listeners:      listenersFor(stdioListener),
	}
	pki := vlib.GetPKI()
	switch c.sec {
	case "starttls", "tls":
		pc.ServerCert = &pki.ServerGood
	case "secret":
		pc.Secret = "s3cret"
		pc.ClientSecret = "s3cret"
	}
	return pc
}

var boundaries = []int{1, 2, 4095, 4096, 4097, 16383, 16384, 16385, 32639, 32640, 32641, 32767, 32768, 32769, 65535, 65536, 65537}

func drawLen(rt *rapid.T, label string, max int) int {
	switch rapid.IntRange(0, 5).Draw(rt, label+"Kind") {
	case 0:
		return 0
	case 1, 2:
		b := boundaries[rapid.IntRange(0, len(boundaries)-1).Draw(rt, label+"B")]
		if b > max {
			b = max
		}
		return b
	case 3:
		return rapid.IntRange(1, 300).Draw(rt, label+"Small")
	default:
		return rapid.IntRange(1, max).Draw(rt, label+"Any")
	}
}

func drawParts(rt *rapid.T, label string, total int) []int {
	switch rapid.IntRange(0, 4).Draw(rt, label+"Mode") {
	case 0:
		return nil // one write
	case 1:
		// equal pieces of a boundary-ish size
		sz := []int{1, 7, 100, 4095, 4096, 4097, 32640, 32768, 32769, 65536, 70000}[rapid.IntRange(0, 10).Draw(rt, label+"Sz")]
		if sz == 1 && total > 3000 {
			sz = 13
		}
		var ps []int
		for t := total; t > 0; t -= sz {
			ps = append(ps, sz)
			if len(ps) > 4096 {
				break
			}
		}
		return ps
	default:
		n := rapid.IntRange(1, 12).Draw(rt, label+"N")
		ps := make([]int, n)
		for i := range ps {
			ps[i] = rapid.IntRange(1, 70000).Draw(rt, label+"P")
		}
		return ps
	}
}

func content(kind int, key uint64, n int) []byte {
	switch kind {
	case 0:
		return make([]byte, n)
	case 1:
		return bytes.Repeat([]byte{0xff}, n)
	case 2:
		b := bytes.Repeat([]byte("GET / HTTP/1.1\r\nUpgrade: websocket\r\n\r\nX-SOCKETACE / HTTP/1.1\r\n\r\n\x13/multistream/1.0.0\n"), n/80+1)
		return b[:n]
	case 3:
		b := make([]byte, n)
		for i := range b {
			b[i] = byte(i) ^ byte(key)
		}
		return b
	default:
		return vlib.PRF(key, 0, n)
	}
}

var (
	dnsMu    sync.Mutex
	dnsPairs = map[string]*vlib.Pair{}
	dnsTgt   *vlib.Target
)

// getPair returns a fresh pair (or the shared DNS pair: miekg/dns' handler registration is process-global and
// the DNS server start sleeps one second, so that pair is reused and rebuilt only after a failure).
func getPair(c config, stdioListener bool, prep func(*vlib.Target)) (*vlib.Pair, *vlib.Target, func(failed bool), error) {
	if c.carrier == vlib.CarDNS {
		dnsMu.Lock()
		key := fmt.Sprintf("%s/%v", c.name, stdioListener)
		if stdioListener {
			// a stdio listener serves exactly one logical connection: always fresh
			delete(dnsPairs, key)
		}
		p := dnsPairs[key]
		if p == nil {
			// only one DNS server may be registered at a time
			for k, old := range dnsPairs {
				old.Close()
				delete(dnsPairs, k)
			}
			if dnsTgt == nil {
				dnsTgt = vlib.NewTarget("data", nil)
			}
			if stdioListener {
				prep(dnsTgt)
			}
			np, err := vlib.StartPair(pairConfig(c, dnsTgt, stdioListener))
			if err != nil {
				dnsMu.Unlock()
				return nil, nil, nil, err
			}
			dnsPairs[key] = np
			p = np
		}
		if !stdioListener {
			prep(dnsTgt)
		}
		return p, dnsTgt, func(failed bool) {
			if failed || stdioListener {
				p.Close()
				delete(dnsPairs, key)
			}
			dnsMu.Unlock()
		}, nil
	}
	tgt := vlib.NewTarget("data", nil)
	prep(tgt)
	p, err := vlib.StartPair(pairConfig(c, tgt, stdioListener))
	if err != nil {
		tgt.Close()
		return nil, nil, nil, err
	}
	return p, tgt, func(bool) { p.Close(); tgt.Close() }, nil
}

func straddles(n int) string {
	for _, b := range []int{4096, 32640, 32768, 65536} {
		if n >= b-1 && n <= b+1 {
			return fmt.Sprintf("at%d", b)
		}
	}
	switch {
	case n == 0:
		return "0"
	case n < 4096:
		return "<4096"
	case n < 32768:
		return "<32768"
	case n < 65536:
		return "<65536"
	default:
		return ">=65536"
	}
}

type caseDesc struct {
	Config        string `json:"config"`
	StdioListener bool   `json:"stdio_listener"`
	LenUp         int    `json:"len_up"`
	LenDown       int    `json:"len_down"`
	UpParts       []int  `json:"up_parts,omitempty"`
	DownParts     []int  `json:"down_parts,omitempty"`
	ContentKind   int    `json:"content_kind"`
	Key           uint64 `json:"key"`
	Duplex        bool   `json:"duplex"`
	GapUs         int    `json:"gap_us"`
	// PipeDebug: environment switch SOCKETACE_PIPE_DEBUG=1 (copy loops that also log the data)
	PipeDebug bool `json:"SOCKETACE_PIPE_DEBUG,omitempty"`
}

func runCase(d caseDesc) (problem string, inconclusive bool) {
	if d.PipeDebug {
		os.Setenv("SOCKETACE_PIPE_DEBUG", "1")
		defer os.Unsetenv("SOCKETACE_PIPE_DEBUG")
	}
	var c config
	for _, x := range configs {
		if x.name == d.Config {
			c = x
		}
	}
	up := content(d.ContentKind, d.Key, d.LenUp)
	down := content((d.ContentKind+1)%5, d.Key+1, d.LenDown)
	timeout := 30 * time.Second
	if c.carrier == vlib.CarDNS {
		timeout = 90 * time.Second
	}
	timeout += time.Duration((d.LenUp+d.LenDown)>>20) * 30 * time.Second // a bound for a stall, not for throughput
	// the target is armed before the pair starts: a standard-stream listener opens its logical connection at start-up
	var pt *vlib.PreparedTransfer
	p, _, done, err := getPair(c, d.StdioListener, func(tgt *vlib.Target) {
		pt = vlib.PrepareTransfer(tgt, vlib.TransferSpec{Up: up, Down: down, UpParts: d.UpParts, DownParts: d.DownParts,
			Gap: time.Duration(d.GapUs) * time.Microsecond, Duplex: d.Duplex, Timeout: timeout})
	})
	if err != nil {
		if vlib.IsBindError(err) {
			return "", true
		}
		return "pair start failed: " + err.Error(), false
	}
	failed := true
	defer func() { done(failed) }()
	decoyBefore := decoy().Accepts()
	res := pt.Run(p, "data")
	if n := decoy().Accepts() - decoyBefore; n != 0 {
		return fmt.Sprintf("the connection for channel data was delivered to the target service of another channel (%d connections there); target of data received %d of %d bytes", n, len(res.GotUp), len(up)), false
	}
	if off := vlib.FirstDiff(res.GotUp, up); off != -1 {
		return fmt.Sprintf("target received %d bytes, application wrote %d; first difference at offset %d; %s; log tail: %v",
			len(res.GotUp), len(up), off, res.Problem, vlib.Tap.Tail(6)), false
	}
	if off := vlib.FirstDiff(res.GotDown, down); off != -1 {
		return fmt.Sprintf("application received %d bytes, target wrote %d; first difference at offset %d; %s; log tail: %v",
			len(res.GotDown), len(down), off, res.Problem, vlib.Tap.Tail(6)), false
	}
	if res.Problem != "" {
		return res.Problem, false
	}
	failed = false
	return "", false
}

func TestFidelity(t *testing.T) {
	thorough := vlib.Thorough()
	rapid.Check(t, func(rt *rapid.T) {
		ci := rapid.IntRange(0, len(configs)-1).Draw(rt, "config")
		c := configs[ci]
		max := vlib.Pick(256*1024, 3*1024*1024)
		if c.carrier == vlib.CarDNS {
			max = vlib.Pick(24*1024, 256*1024)
		}
		d := caseDesc{Config: c.name}
		d.StdioListener = rapid.IntRange(0, 4).Draw(rt, "stdioListener") == 0
		d.LenUp = drawLen(rt, "up", max)
		d.LenDown = drawLen(rt, "down", max)
		if d.LenUp+d.LenDown == 0 {
			d.LenUp = 1
		}
		d.UpParts = drawParts(rt, "upParts", d.LenUp)
		d.DownParts = drawParts(rt, "downParts", d.LenDown)
		d.ContentKind = rapid.IntRange(0, 4).Draw(rt, "content")
		d.Key = rapid.Uint64().Draw(rt, "key")
		d.Duplex = rapid.Bool().Draw(rt, "duplex")
		if rapid.IntRange(0, 3).Draw(rt, "gap") == 0 && len(d.UpParts)+len(d.DownParts) < 64 {
			d.GapUs = rapid.IntRange(50, 3000).Draw(rt, "gapUs")
		}
		_ = thorough
		d.PipeDebug = c.carrier != vlib.CarDNS && rapid.IntRange(0, 7).Draw(rt, "pipeDebug") == 0
		vlib.Tap.Reset()
		problem, inconclusive := runCase(d)
		if inconclusive {
			vlib.Rec.Inconclusive("bind")
			return
		}
		nontrivial := d.LenUp+d.LenDown > 4096 || len(d.UpParts) >= 2 || len(d.DownParts) >= 2
		lk := "socket"
		if d.StdioListener {
			lk = "stdio"
		}
		labels := []string{"cfg:" + c.name, "listener:" + lk, "up:" + straddles(d.LenUp), "down:" + straddles(d.LenDown)}
		if d.Duplex {
			labels = append(labels, "duplex")
		}
		vlib.Rec.Case(fmt.Sprintf("%+v", d), nontrivial, labels, func() interface{} { return d })
		if problem != "" {
			vlib.Rec.Violation(map[string]interface{}{"property": "C01", "case": d, "problem": problem})
			rt.Fatalf("C01 %+v: %s", d, problem)
		}
	})
}

// TestDNSEveryWriteLength: the DNS tunnel cuts every carrier write into chunks whose encoded length depends on the
// write's length modulo the chunk size, and host-name labels, record strings and padding each have their own boundary
// cases. Rather than hoping that random lengths hit each residue, every application write length from 1 up to more
// than one chunk (thorough: several chunks) is sent over one logical connection and echoed back, one write at a time.
func TestDNSEveryWriteLength(t *testing.T) {
	for _, name := range []string{"dns/plain"} {
		var c config
		for _, x := range configs {
			if x.name == name {
				c = x
			}
		}
		p, _, done, err := getPair(c, false, func(tgt *vlib.Target) { tgt.DrainNew(); tgt.SetHandler(vlib.EchoHandler) })
		if err != nil {
			if vlib.IsBindError(err) {
				vlib.Rec.Inconclusive("bind")
				return
			}
			t.Fatalf("pair start failed: %v", err)
		}
		failed := true
		func() {
			defer func() { done(failed) }()
			app, err := p.Dial("data")
			if err != nil {
				t.Fatalf("dial: %v", err)
			}
			defer app.Close()
			max := vlib.Pick(420, 1600)
			for n := 1; n <= max; n++ {
				data := vlib.PRF(uint64(n)*31+5, 0, n)
				app.SetWriteDeadline(time.Now().Add(30 * time.Second))
				if _, err := app.Write(data); err != nil {
					t.Fatalf("write of %d bytes: %v", n, err)
				}
				got, rerr := vlib.ReadFullTimeout(app, n, 30*time.Second)
				d := caseDesc{Config: name, LenUp: n, LenDown: n, Key: uint64(n)*31 + 5}
				vlib.Rec.Case(fmt.Sprintf("every-length %s %d", name, n), true, []string{"cfg:" + name, "every-write-length"}, func() interface{} { return d })
				if off := vlib.FirstDiff(got, data); off != -1 {
					problem := fmt.Sprintf("a single write of %d bytes over the DNS tunnel (after writes of every smaller length on the same connection) came back as %d bytes, first difference at offset %d (%v); log tail: %v", n, len(got), off, rerr, vlib.Tap.Tail(6))
					vlib.Rec.Violation(map[string]interface{}{"property": "C01", "case": d, "every_write_length_up_to": n, "problem": problem})
					t.Fatalf("C01: %s", problem)
				}
			}
			failed = false
		}()
	}
}

// ---- several logical connections at the same time ----------------------------------------------------------------

type concDesc struct {
	Config string  `json:"config"`
	Conns  []cspec `json:"connections"`
	// RefusedMeanwhile: a request for a channel the server does not offer is made (and refused) while the transfers run
	RefusedMeanwhile bool `json:"refused_request_meanwhile,omitempty"`
}

type cspec struct {
	LenUp   int    `json:"len_up"`
	LenDown int    `json:"len_down"`
	UpParts []int  `json:"up_parts,omitempty"`
	Key     uint32 `json:"key"`
}

func putU32(b []byte, v uint32) {
	b[0], b[1], b[2], b[3] = byte(v>>24), byte(v>>16), byte(v>>8), byte(v)
}
func getU32(b []byte) uint32 {
	return uint32(b[0])<<24 | uint32(b[1])<<16 | uint32(b[2])<<8 | uint32(b[3])
}

// runConcurrent: "for every logical connection" also holds while other logical connections of the same pair move data.
// Every connection announces itself with a 16-byte header (index, lengths, key) so that the target knows what to expect
// on it and what to send back; all connections start at the same instant.
func runConcurrent(d concDesc) (problem string, inconclusive bool) {
	var c config
	for _, x := range configs {
		if x.name == d.Config {
			c = x
		}
	}
	timeout := 40 * time.Second
	if c.carrier == vlib.CarDNS {
		timeout = 120 * time.Second
	}
	// the bound is for a stall, not for throughput: half a minute more per megabyte the case moves
	total := 0
	for _, cs := range d.Conns {
		total += cs.LenUp + cs.LenDown
	}
	timeout += time.Duration(total>>20) * 30 * time.Second
	var mu sync.Mutex
	tgtProblems := map[uint32]string{}
	tgtDone := make([]chan struct{}, len(d.Conns))
	tgtOnce := make([]sync.Once, len(d.Conns))
	seen := make([]int32, len(d.Conns))
	for i := range tgtDone {
		tgtDone[i] = make(chan struct{})
	}
	handler := func(tc *vlib.TargetConn) {
		defer tc.Conn.Close()
		tc.Conn.SetDeadline(time.Now().Add(timeout))
		hdr := make([]byte, 16)
		if _, err := io.ReadFull(tc.Conn, hdr); err != nil {
			return
		}
		idx, lu, ld, key := getU32(hdr), int(getU32(hdr[4:])), int(getU32(hdr[8:])), getU32(hdr[12:])
		if int(idx) >= len(d.Conns) || lu != d.Conns[idx].LenUp || ld != d.Conns[idx].LenDown || key != d.Conns[idx].Key || atomic.AddInt32(&seen[idx], 1) != 1 {
			mu.Lock()
			tgtProblems[0] = fmt.Sprintf("a target connection starts with %s, which no application wrote as the start of its connection (or wrote once only)", vlib.Hex(hdr))
			mu.Unlock()
			return
		}
		var wg sync.WaitGroup
		wg.Add(1)
		go func() {
			defer wg.Done()
			tc.Conn.Write(vlib.PRF(uint64(key)+1, 0, ld))
		}()
		got := make([]byte, lu)
		n, err := io.ReadFull(tc.Conn, got)
		want := vlib.PRF(uint64(key), 0, lu)
		if off := vlib.FirstDiff(got[:n], want); off != -1 {
			mu.Lock()
			tgtProblems[idx] = fmt.Sprintf("target of connection %d received %d of %d bytes, first difference at offset %d (%v)", idx, n, lu, off, err)
			mu.Unlock()
		}
		wg.Wait()
		tgtOnce[idx].Do(func() { close(tgtDone[idx]) })
		// wait for the application to close
		tc.Conn.Read(make([]byte, 1))
	}
	p, _, done, err := getPair(c, false, func(tgt *vlib.Target) { tgt.DrainNew(); tgt.SetHandler(handler) })
	if err != nil {
		if vlib.IsBindError(err) {
			return "", true
		}
		return "pair start failed: " + err.Error(), false
	}
	failed := true
	defer func() { done(failed) }()
	appProblems := make([]string, len(d.Conns))
	var wg sync.WaitGroup
	start := make(chan struct{})
	for i, cs := range d.Conns {
		wg.Add(1)
		go func(i int, cs cspec) {
			defer wg.Done()
			app, err := p.Dial("data")
			if err != nil {
				appProblems[i] = "dial: " + err.Error()
				return
			}
			defer app.Close()
			app.SetDeadline(time.Now().Add(timeout))
			hdr := make([]byte, 16)
			putU32(hdr, uint32(i))
			putU32(hdr[4:], uint32(cs.LenUp))
			putU32(hdr[8:], uint32(cs.LenDown))
			putU32(hdr[12:], cs.Key)
			<-start
			var w sync.WaitGroup
			w.Add(1)
			go func() {
				defer w.Done()
				if err := vlib.WriteParts(app, append(hdr, vlib.PRF(uint64(cs.Key), 0, cs.LenUp)...), cs.UpParts, 0); err != nil {
					appProblems[i] = fmt.Sprintf("connection %d: write: %v", i, err)
				}
			}()
			got := make([]byte, cs.LenDown)
			n, rerr := io.ReadFull(app, got)
			if off := vlib.FirstDiff(got[:n], vlib.PRF(uint64(cs.Key)+1, 0, cs.LenDown)); off != -1 {
				appProblems[i] = fmt.Sprintf("application of connection %d received %d of %d bytes, first difference at offset %d (%v)", i, n, cs.LenDown, off, rerr)
			}
			w.Wait()
			// keep the connection until the target has everything
			select {
			case <-tgtDone[i]:
			case <-time.After(timeout):
				if appProblems[i] == "" {
					appProblems[i] = fmt.Sprintf("connection %d: target did not receive the %d bytes within %v", i, cs.LenUp, timeout)
				}
			}
		}(i, cs)
	}
	close(start)
	if d.RefusedMeanwhile {
		// somebody asks for a channel the server does not offer while the transfers run
		time.Sleep(time.Duration(2+len(d.Conns)) * time.Millisecond)
		if c, err := p.Dial("nochan"); err == nil {
			c.SetDeadline(time.Now().Add(10 * time.Second))
			c.Write([]byte("anybody?"))
			c.Read(make([]byte, 8))
			c.Close()
		}
	}
	wg.Wait()
	mu.Lock()
	defer mu.Unlock()
	for i := range d.Conns {
		if m := tgtProblems[uint32(i)]; m != "" {
			return m + "; log tail: " + fmt.Sprint(vlib.Tap.Tail(4)), false
		}
		if appProblems[i] != "" {
			return appProblems[i] + "; log tail: " + fmt.Sprint(vlib.Tap.Tail(4)), false
		}
	}
	failed = false
	return "", false
}

// isTimeBound: the problem is a wall-clock bound that was hit (nothing wrong was received).
func isTimeBound(problem string) bool {
	return strings.Contains(problem, "i/o timeout") || strings.Contains(problem, "did not receive the")
}

func minInt(a, b int) int {
	if a < b {
		return a
	}
	return b
}

func TestConcurrentTransfers(t *testing.T) {
	budget := int32(vlib.Pick(40, 600))
	var ran int32
	rapid.Check(t, func(rt *rapid.T) {
		if atomic.AddInt32(&ran, 1) > budget {
			return
		}
		c := configs[rapid.IntRange(0, len(configs)-1).Draw(rt, "config")]
		max := vlib.Pick(600*1024, 3*1024*1024)
		if c.carrier == vlib.CarDNS {
			if rapid.IntRange(0, 3).Draw(rt, "dnsRare") != 0 {
				c = configs[0]
			} else {
				max = 16 * 1024
			}
		}
		d := concDesc{Config: c.name}
		k := rapid.IntRange(2, 5).Draw(rt, "connections")
		for i := 0; i < k; i++ {
			cs := cspec{Key: rapid.Uint32().Draw(rt, "key")}
			cs.LenUp = drawLen(rt, "up", max)
			cs.LenDown = drawLen(rt, "down", max)
			cs.UpParts = drawParts(rt, "upParts", cs.LenUp+16)
			d.Conns = append(d.Conns, cs)
		}
		d.RefusedMeanwhile = rapid.IntRange(0, 2).Draw(rt, "refusedMeanwhile") == 0
		vlib.Tap.Reset()
		problem, inconclusive := runConcurrent(d)
		if problem != "" && !inconclusive && isTimeBound(problem) {
			// A transfer that is late is not a transfer that is wrong: on a machine busy with other work a KCP or DNS
			// carrier can miss any wall-clock bound (and the multiplexer's own keep-alive then ends the session). A case
			// that ran into a time bound is run once more, alone; it counts only when it is late again.
			first := problem
			time.Sleep(3 * time.Second)
			vlib.Tap.Reset()
			problem, inconclusive = runConcurrent(d)
			if problem == "" && !inconclusive {
				vlib.Rec.Inconclusive("late-not-reproduced: " + first[:minInt(100, len(first))])
				return
			}
		}
		if inconclusive {
			vlib.Rec.Inconclusive("bind")
			return
		}
		vlib.Rec.Case(fmt.Sprintf("concurrent %+v", d), true, []string{"cfg:" + c.name, "concurrent-connections", fmt.Sprintf("connections:%d", k)}, func() interface{} { return d })
		if problem != "" {
			vlib.Rec.Violation(map[string]interface{}{"property": "C01", "concurrent_case": d, "problem": problem})
			rt.Fatalf("C01 concurrent %+v: %s", d, problem)
		}
	})
}

// TestAgedSession: fidelity does not depend on the age of the connection. With the session negotiation's time limit (an
// exported variable) lowered from 30 s to 2 s, every carrier moves 100000 bytes each way over one logical connection,
// leaves it idle until the limit has passed and moves another 100000 bytes each way over the same connection.
func TestAgedSession(t *testing.T) {
	old := socketace.HandshakeTimeout
	socketace.HandshakeTimeout = 2 * time.Second
	defer func() { socketace.HandshakeTimeout = old }()
	var todo []config
	for _, c := range configs {
		if c.carrier != vlib.CarDNS { // the DNS pair is process-wide
			todo = append(todo, c)
		}
	}
	problems := make([]string, len(todo))
	skipped := make([]bool, len(todo))
	var wg sync.WaitGroup
	for i, c := range todo {
		wg.Add(1)
		go func(i int, c config) {
			defer wg.Done()
			tgt := vlib.NewTarget("data", vlib.EchoHandler)
			defer tgt.Close()
			p, err := vlib.StartPair(pairConfig(c, tgt, false))
			if err != nil {
				skipped[i] = true
				return
			}
			defer p.Close()
			app, err := p.Dial("data")
			if err != nil {
				problems[i] = "dial: " + err.Error()
				return
			}
			defer app.Close()
			for phase := 0; phase < 2; phase++ {
				data := vlib.PRF(uint64(300+10*i+phase), 0, 100000)
				werr := make(chan error, 1)
				go func() {
					app.SetWriteDeadline(time.Now().Add(30 * time.Second))
					_, err := app.Write(data)
					werr <- err
				}()
				got, rerr := vlib.ReadFullTimeout(app, len(data), 30*time.Second)
				if off := vlib.FirstDiff(got, data); off != -1 {
					problems[i] = fmt.Sprintf("transfer %d (the connection is %s old): %d of %d echoed bytes came back, first difference at %d (%v; write: %v)", phase+1, []string{"new", "2.6 s"}[phase], len(got), len(data), off, rerr, <-werr)
					return
				}
				<-werr
				if phase == 0 {
					time.Sleep(2600 * time.Millisecond)
				}
			}
		}(i, c)
	}
	wg.Wait()
	for i, c := range todo {
		if skipped[i] {
			vlib.Rec.Inconclusive("setup")
			continue
		}
		d := map[string]interface{}{"config": c.name, "idle_s": 2.6, "negotiation_limit_s": 2, "bytes_each_way_per_transfer": 100000}
		vlib.Rec.Case("aged-session "+c.name, true, []string{"cfg:" + c.name, "aged-session"}, func() interface{} { return d })
		if problems[i] != "" {
			vlib.Rec.Violation(map[string]interface{}{"property": "C01", "aged_session_case": d, "problem": problems[i]})
			t.Errorf("C01 aged session %s: %s", c.name, problems[i])
		}
	}
}
