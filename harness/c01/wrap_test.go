//go:build verif

package c01

import (
	"fmt"
	"io"
	"sync/atomic"
	"testing"
	"time"

	"github.com/bokysan/socketace/v2/internal/zzverif/vlib"
)

// TestDNSSessionPastTheSequenceWrap: one DNS physical session carries more upstream packets than the tunnel's 16-bit
// sequence numbers can count (about 12.1 MiB at the negotiated query size), spread over several logical connections;
// every byte has to arrive, in order, and the last connection has to work like the first. The packet count is a
// property of the session, not of a connection, so many small transfers reach the same point.
func TestDNSSessionPastTheSequenceWrap(t *testing.T) {
	var c config
	for _, x := range configs {
		if x.name == "dns/plain" {
			c = x
		}
	}
	var received int64
	var mismatch int64 = -1
	sink := func(tc *vlib.TargetConn) {
		// each connection carries 1 MiB of PRF(key) where the key is its first byte; the sink checks as it reads and
		// answers with one byte when it has them all
		buf := make([]byte, 64*1024)
		first := make([]byte, 1)
		if _, err := io.ReadFull(tc.Conn, first); err != nil {
			tc.Conn.Close()
			return
		}
		key := uint64(first[0])
		off := 0
		for {
			tc.Conn.SetReadDeadline(time.Now().Add(60 * time.Second))
			n, err := tc.Conn.Read(buf)
			if n > 0 {
				if d := vlib.FirstDiff(buf[:n], vlib.PRF(key, off, n)); d != -1 {
					atomic.CompareAndSwapInt64(&mismatch, -1, atomic.LoadInt64(&received)+int64(d))
				}
				off += n
				atomic.AddInt64(&received, int64(n))
			}
			if err != nil || off >= wrapPerConn {
				break
			}
		}
		tc.Conn.Write([]byte{byte(key)})
		tc.Conn.Close()
	}
	p, _, done, err := getPair(c, false, func(tgt *vlib.Target) { tgt.DrainNew(); tgt.SetHandler(sink) })
	if err != nil {
		if vlib.IsBindError(err) {
			vlib.Rec.Inconclusive("bind")
			return
		}
		t.Fatalf("pair start failed: %v", err)
	}
	failed := true
	defer func() { done(failed) }()
	const perConn = wrapPerConn
	const conns = 14
	t0 := time.Now()
	fail := func(msg string) {
		vlib.Rec.Violation(map[string]interface{}{"property": "C01", "test": "dns-session-past-the-sequence-wrap", "bytes_received_by_target": atomic.LoadInt64(&received), "problem": msg})
		t.Fatalf("C01: %s", msg)
	}
	for k := 0; k < conns; k++ {
		app, err := p.Dial("data")
		if err != nil {
			fail("dial: " + err.Error())
		}
		key := uint64(k + 1)
		app.Write([]byte{byte(key)})
		data := vlib.PRF(key, 0, perConn)
		for off := 0; off < len(data); off += 32 * 1024 {
			app.SetWriteDeadline(time.Now().Add(60 * time.Second))
			if _, err := app.Write(data[off : off+32*1024]); err != nil {
				app.Close()
				fail(fmt.Sprintf("connection %d of %d on one DNS session: write stalled or failed after %d bytes of this connection (%d bytes delivered on the session so far): %v", k+1, conns, off, atomic.LoadInt64(&received), err))
			}
		}
		ack, _ := vlib.ReadFullTimeout(app, 1, 120*time.Second)
		app.Close()
		if len(ack) != 1 || ack[0] != byte(key) {
			fail(fmt.Sprintf("connection %d of %d on one DNS session: the target never confirmed the %d bytes written (%d bytes delivered on the session so far)", k+1, conns, perConn, atomic.LoadInt64(&received)))
		}
	}
	d := map[string]interface{}{"config": "dns/plain", "connections": conns, "bytes_per_connection": perConn, "seconds": time.Since(t0).Seconds()}
	vlib.Rec.Case("dns-session-past-the-sequence-wrap", true, []string{"cfg:dns/plain", "session-past-sequence-wrap"}, func() interface{} { return d })
	if m := atomic.LoadInt64(&mismatch); m != -1 {
		fail(fmt.Sprintf("the target received different bytes than were written, first difference around byte %d of the session", m))
	}
	if got := atomic.LoadInt64(&received); got != conns*perConn {
		fail(fmt.Sprintf("the target received %d bytes, %d were written", got, conns*perConn))
	}
	failed = false
}

const wrapPerConn = 1 << 20
