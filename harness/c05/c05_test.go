//go:build verif

package c05

import (
	"fmt"
	"net"
	"os"
	"sort"
	"strings"
	"sync"
	"sync/atomic"
	"testing"
	"time"

	"github.com/bokysan/socketace/v2/internal/client/listener"
	"github.com/bokysan/socketace/v2/internal/client/upstream"
	clientCmd "github.com/bokysan/socketace/v2/internal/commands/client"
	"github.com/bokysan/socketace/v2/internal/socketace"
	"github.com/bokysan/socketace/v2/internal/util/addr"
	"github.com/bokysan/socketace/v2/internal/util/cert"
	"github.com/bokysan/socketace/v2/internal/zzverif/vlib"
	"pgregory.net/rapid"
)

func TestMain(m *testing.M) {
	// failing handshakes (e.g. wrong UDP secret) end after this instead of the 30 s default
	socketace.HandshakeTimeout = 8 * time.Second
	// the platform's own trust store holds one CA that no endpoint is configured with: "chains to the configured CA"
	// then differs observably from "chains to some CA this machine trusts"
	vlib.InstallPlatformTrust()
	vlib.Main(m)
}

type caseDesc struct {
	Carrier    string `json:"carrier"`     // tcp+tls, https, tcp, http, udp, dns (the last four: StartTLS)
	ServerCert string `json:"server_cert"` // match, wronghost, untrusted, expired, platform (valid and matching, but issued by a CA of the platform trust store)
	Insecure   bool   `json:"client_insecure"`
	ClientCert string `json:"client_cert"` // none, own, foreign, platform (issued by a CA of the platform trust store), foreign-presented (foreign CA with the subject of the server's CA, so that the client really sends it), own-expired
	Require    bool   `json:"require_client_cert"`
	Host       string `json:"host_spelling"` // localhost, 127.0.0.1 (dns: example.org)
	// Secret (udp only): the endpoint is in addition protected by a shared secret, equal on both ends; certificates
	// must be judged exactly as without it
	Secret bool `json:"udp_shared_secret,omitempty"`
	// Spelling: the upstream address uses the other documented spelling of its scheme (wss for https)
	Spelling string `json:"upstream_scheme_spelling,omitempty"`
	// Bundle: the CA option of both ends holds two certificates (an unrelated CA first, the issuing CA second)
	Bundle bool `json:"ca_option_is_a_bundle_of_two,omitempty"`
}

func (d caseDesc) mode() string {
	if d.Carrier == vlib.CarTCPTLS || d.Carrier == vlib.CarHTTPS || d.Carrier == vlib.CarUnixTLS {
		return "tls"
	}
	return "starttls"
}

// truth is the admission truth table written from the property statement.
func truth(d caseDesc) bool {
	serverOK := d.Insecure || d.ServerCert == "match"
	if d.Host == "(none)" {
		// an upstream address without a host part has no name a certificate could match: only insecure mode connects
		serverOK = d.Insecure
	}
	clientOK := !d.Require || d.ClientCert == "own"
	return serverOK && clientOK
}

func runCase(d caseDesc) (established bool, targetBytes int, problem string, inconclusive bool) {
	tgt := vlib.NewTarget("data", vlib.EchoHandler)
	defer tgt.Close()
	pki := vlib.GetPKI()
	host := d.Host
	certHost := host
	if host == "(none)" {
		certHost = "localhost"
	}
	sc := vlib.ServerCertFor(d.ServerCert, certHost)
	cfg := vlib.PairConfig{Carrier: d.Carrier, ServerCert: &sc, ClientCA: pki.CA.CertPEM, ClientInsecure: d.Insecure,
		RequireClient: d.Require, ServerCA: pki.CA.CertPEM, HostSpelling: host, MustSecure: true, ClientScheme: d.Spelling,
		Channels:  []vlib.ChannelSpec{{Name: "data", Target: tgt.URL()}},
		Listeners: []vlib.ListenerSpec{{Channel: "data"}}}
	if d.Carrier == vlib.CarDNS {
		cfg.HostSpelling = ""
		cfg.Domain = host
	}
	if d.Secret {
		cfg.Secret, cfg.ClientSecret = "s3cret", "s3cret"
	}
	if d.Bundle {
		cfg.ClientCA, cfg.ServerCA = pki.Bundle(), pki.Bundle()
	}
	switch d.ClientCert {
	case "own":
		cfg.ClientCert = &pki.ClientGood
	case "foreign":
		cfg.ClientCert = &pki.ClientForeign
	case "foreign-presented":
		cfg.ClientCert = &pki.ClientShadow
	case "own-expired":
		cfg.ClientCert = &pki.ClientExpired
	case "platform":
		cfg.ClientCert = &pki.ClientPlatform
	}
	var p *vlib.Pair
	var err error
	release := func(bool) {}
	if d.Carrier == vlib.CarDNS {
		p, release, err = vlib.SharedDNSPair(fmt.Sprintf("c05/%p", tgt), func() (*vlib.Pair, error) { return vlib.StartPair(cfg) })
	} else {
		p, err = vlib.StartPair(cfg)
	}
	if err != nil {
		if vlib.IsBindError(err) {
			return false, 0, "", true
		}
		return false, 0, "pair start: " + err.Error(), false
	}
	defer func() { release(true); p.Close() }()
	bound := 15 * time.Second
	if d.Carrier == vlib.CarDNS {
		bound = 60 * time.Second
	}
	c, err := p.Dial("data")
	if err != nil {
		return false, 0, "dial: " + err.Error(), false
	}
	defer c.Close()
	msg := vlib.PRF(5, 0, 200)
	c.SetDeadline(time.Now().Add(bound))
	c.Write(msg)
	got, _ := vlib.ReadFullTimeout(c, len(msg), bound)
	established = vlib.FirstDiff(got, msg) == -1
	for _, tc := range tgt.Conns() {
		targetBytes += tc.ReceivedLen()
	}
	return established, targetBytes, "", false
}

func allCases(withDNS bool) []caseDesc {
	var out []caseDesc
	carriers := []string{vlib.CarTCPTLS, vlib.CarHTTPS, vlib.CarTCP, vlib.CarHTTP, vlib.CarUDP}
	if withDNS {
		carriers = append(carriers, vlib.CarDNS)
	}
	for _, car := range carriers {
		hosts := []string{"localhost", "127.0.0.1"}
		if car == vlib.CarDNS {
			hosts = []string{"example.org"}
		}
		if car == vlib.CarTCP || car == vlib.CarUDP {
			// the host-less spelling of a StartTLS upstream (tcp://:port, udp://:port)
			hosts = append(hosts, "(none)")
		}
		for _, host := range hosts {
			for _, sc := range []string{"match", "wronghost", "untrusted", "expired"} {
				for _, ins := range []bool{false, true} {
					ccs := []string{"none", "own", "foreign"}
					if sc == "match" && host == "localhost" {
						// a certificate of a foreign CA that the client really presents, and an expired one of the right CA
						ccs = append(ccs, "foreign-presented", "own-expired")
					}
					if host == "localhost" && sc == "match" && !ins {
						// the CA option may hold several certificates
						for _, cc := range []string{"none", "own", "foreign-presented"} {
							for _, req := range []bool{false, true} {
								out = append(out, caseDesc{Carrier: car, ServerCert: sc, Insecure: ins, ClientCert: cc, Require: req, Host: host, Bundle: true})
							}
						}
					}
					if host == "localhost" && sc == "match" {
						// peers vouched for by the platform's trust store instead of the configured CA
						out = append(out, caseDesc{Carrier: car, ServerCert: "platform", Insecure: ins, ClientCert: "none", Host: host})
						out = append(out, caseDesc{Carrier: car, ServerCert: sc, Insecure: ins, ClientCert: "platform", Require: true, Host: host})
					}
					if host == "(none)" {
						// the host-less spelling is about the server certificate only
						out = append(out, caseDesc{Carrier: car, ServerCert: sc, Insecure: ins, ClientCert: "none", Host: host})
						continue
					}
					for _, cc := range ccs {
						for _, req := range []bool{false, true} {
							out = append(out, caseDesc{Carrier: car, ServerCert: sc, Insecure: ins, ClientCert: cc, Require: req, Host: host})
							if car == vlib.CarUDP && host == "localhost" && cc != "foreign" {
								out = append(out, caseDesc{Carrier: car, ServerCert: sc, Insecure: ins, ClientCert: cc, Require: req, Host: host, Secret: true})
							}
						}
					}
				}
			}
		}
	}
	// the TLS websocket under its other documented spelling: the same verdicts as for https
	for _, sc := range []string{"match", "wronghost", "untrusted", "expired", "platform"} {
		for _, ins := range []bool{false, true} {
			for _, cc := range []string{"none", "own", "platform"} {
				for _, req := range []bool{false, true} {
					out = append(out, caseDesc{Carrier: vlib.CarHTTPS, Spelling: "wss", ServerCert: sc, Insecure: ins, ClientCert: cc, Require: req, Host: "localhost"})
				}
			}
		}
	}
	// TLS over a unix-domain socket: the upstream address has a path and no host name a certificate could match, so - like
	// the host-less spellings above - it is judged for what it must never do: complete a session with a server it cannot
	// verify, unless the user chose insecure mode
	for _, sc := range []string{"match", "wronghost", "untrusted", "expired", "platform"} {
		for _, ins := range []bool{false, true} {
			out = append(out, caseDesc{Carrier: vlib.CarUnixTLS, ServerCert: sc, Insecure: ins, ClientCert: "none", Host: "(none)"})
		}
	}
	return out
}

func judge(t *testing.T, d caseDesc) bool {
	vlib.Tap.Reset()
	est, tb, problem, inconclusive := runCase(d)
	if inconclusive {
		vlib.Rec.Inconclusive("bind")
		return false
	}
	want := truth(d)
	nontrivial := !d.Insecure || d.Require
	labels := []string{"carrier:" + d.Carrier, "mode:" + d.mode(), "server-cert:" + d.ServerCert, "client-cert:" + d.ClientCert, fmt.Sprintf("expect-admit:%v", want)}
	vlib.Rec.Case(fmt.Sprintf("%+v", d), nontrivial, labels, func() interface{} { return d })
	msg := problem
	if d.Host == "(none)" && want && !est {
		// a host-less address need not be connectable at all (a datagram upstream cannot dial ":port"); the spelling is
		// judged for what it must never do only
		want = est
	}
	if msg == "" && est != want {
		if want {
			msg = fmt.Sprintf("session NOT established although the truth table admits it (server certificate %s for %q chains to the configured CA, client certificate %s, require=%v, insecure=%v)", d.ServerCert, d.Host, d.ClientCert, d.Require, d.Insecure)
		} else {
			msg = fmt.Sprintf("session ESTABLISHED although it must be refused (server certificate %s, insecure=%v, client certificate %s, require=%v); %d bytes reached the target", d.ServerCert, d.Insecure, d.ClientCert, d.Require, tb)
		}
	}
	if msg == "" && !want && tb > 0 {
		msg = fmt.Sprintf("%d application bytes reached the target although the session must be refused", tb)
	}
	if msg != "" {
		sig := signature(d, est, want)
		if vlib.IsKnown("C05", sig) {
			vlib.Rec.Known(sig, map[string]interface{}{"case": d, "problem": msg})
			return true
		}
		vlib.Rec.Violation(map[string]interface{}{"property": "C05", "case": d, "problem": msg, "log": vlib.Tap.Tail(6)})
		t.Errorf("C05 %+v: %s; log: %v", d, msg, vlib.Tap.Tail(6))
		return false
	}
	return true
}

// signature names the root-cause class of a failing case for the known-findings file.
func signature(d caseDesc, est, want bool) string {
	return fmt.Sprintf("carrier=%s/%s want=%v", d.Carrier, d.mode(), want)
}

// TestAdmissionMatrix enumerates the whole finite configuration matrix.
func TestAdmissionMatrix(t *testing.T) {
	shard, shards := vlib.Shard()
	cases := allCases(vlib.Thorough())
	var failures int32
	complete := true
	// the cases are independent pairs on their own ports (six at a time); the DNS carrier has one process-wide server
	var wg sync.WaitGroup
	sem := make(chan struct{}, 6)
	for i, d := range cases {
		if i%shards != shard {
			continue
		}
		if atomic.LoadInt32(&failures) >= 12 {
			complete = false
			break
		}
		if d.Carrier == vlib.CarDNS {
			wg.Wait()
			if !judge(t, d) {
				atomic.AddInt32(&failures, 1)
			}
			continue
		}
		wg.Add(1)
		sem <- struct{}{}
		go func(d caseDesc) {
			defer wg.Done()
			defer func() { <-sem }()
			if !judge(t, d) {
				atomic.AddInt32(&failures, 1)
			}
		}(d)
	}
	wg.Wait()
	if !vlib.Thorough() {
		// a few DNS cases also in the quick tier
		for _, d := range []caseDesc{
			{Carrier: vlib.CarDNS, ServerCert: "match", ClientCert: "none", Host: "example.org"},
			{Carrier: vlib.CarDNS, ServerCert: "untrusted", ClientCert: "none", Host: "example.org"},
			{Carrier: vlib.CarDNS, ServerCert: "match", ClientCert: "none", Require: true, Host: "example.org"},
		} {
			judge(t, d)
		}
	}
	vlib.Rec.Exhaustive("server certificate x insecure x client certificate x require x {tcp+tls, https, StartTLS over tcp/http/udp"+map[bool]string{true: "/dns", false: ""}[vlib.Thorough()]+"} x host spelling (union over shards)", complete)
}

// TestUDPSecret: equal secrets admit, different or one-sided secrets do not and nothing reaches the target.
func TestUDPSecret(t *testing.T) {
	secrets := []string{"", "alpha", "beta", "alphaX", "ALPHA"}
	type res struct {
		ss, cs      string
		established bool
		tb          int
		skipped     bool
	}
	var mu sync.Mutex
	var results []res
	var wg sync.WaitGroup
	sem := make(chan struct{}, 8)
	for _, ss := range secrets {
		for _, cs := range secrets {
			if ss == "" && cs == "" {
				continue
			}
			wg.Add(1)
			go func(ss, cs string) {
				defer wg.Done()
				sem <- struct{}{}
				defer func() { <-sem }()
				r := res{ss: ss, cs: cs}
				tgt := vlib.NewTarget("data", vlib.EchoHandler)
				defer tgt.Close()
				cfg := vlib.PairConfig{Carrier: vlib.CarUDP, Secret: ss, ClientSecret: cs,
					Channels:  []vlib.ChannelSpec{{Name: "data", Target: tgt.URL()}},
					Listeners: []vlib.ListenerSpec{{Channel: "data"}}}
				p, err := vlib.StartPair(cfg)
				if err != nil {
					r.skipped = true
				} else {
					defer p.Close()
					c, err := p.Dial("data")
					if err == nil {
						msg := vlib.PRF(9, 0, 100)
						c.SetDeadline(time.Now().Add(12 * time.Second))
						c.Write(msg)
						got, _ := vlib.ReadFullTimeout(c, len(msg), 12*time.Second)
						r.established = vlib.FirstDiff(got, msg) == -1
						c.Close()
					}
					for _, tc := range tgt.Conns() {
						r.tb += tc.ReceivedLen()
					}
				}
				mu.Lock()
				results = append(results, r)
				mu.Unlock()
			}(ss, cs)
		}
	}
	wg.Wait()
	sort.Slice(results, func(i, j int) bool { return results[i].ss+"/"+results[i].cs < results[j].ss+"/"+results[j].cs })
	for _, r := range results {
		if r.skipped {
			vlib.Rec.Inconclusive("bind")
			continue
		}
		want := r.ss == r.cs
		d := map[string]interface{}{"server_secret": r.ss, "client_secret": r.cs}
		vlib.Rec.Case(fmt.Sprintf("udp-secret %q/%q", r.ss, r.cs), true, []string{"udp-secret", fmt.Sprintf("expect-admit:%v", want)}, func() interface{} { return d })
		if r.established != want || (!want && r.tb > 0) {
			msg := fmt.Sprintf("UDP server secret %q, client secret %q: established=%v (want %v), %d bytes at the target", r.ss, r.cs, r.established, want, r.tb)
			vlib.Rec.Violation(map[string]interface{}{"property": "C05", "case": d, "problem": msg})
			t.Errorf("C05 %s", msg)
		}
	}
}

// ---- sequences: one client configuration used for several upstream attempts -----------------------------------------

type seqEntry struct {
	Carrier    string `json:"carrier"`     // tcp+tls, tcp (StartTLS), https, stdio+tls-dead (a standard-stream attempt that fails)
	Host       string `json:"host"`        // spelling in the upstream URL
	ServerCert string `json:"server_cert"` // match, otherhost (valid for the other spelling only), untrusted, expired
}

func (e seqEntry) admitted() bool { return e.ServerCert == "match" && e.Carrier != "stdio+tls-dead" }

// TestSequencesShareNothing: verification of one upstream must not depend on what was attempted before it with the
// same client configuration (fallback lists, reconnects to another host, a failed standard-stream attempt).
func TestSequencesShareNothing(t *testing.T) {
	rapid.Check(t, func(rt *rapid.T) {
		n := rapid.IntRange(2, 4).Draw(rt, "entries")
		var entries []seqEntry
		for i := 0; i < n; i++ {
			e := seqEntry{}
			e.Carrier = []string{vlib.CarTCPTLS, vlib.CarTCPTLS, vlib.CarTCP, vlib.CarHTTPS, "stdio+tls-dead"}[rapid.IntRange(0, 4).Draw(rt, "carrier")]
			e.Host = []string{"localhost", "127.0.0.1"}[rapid.IntRange(0, 1).Draw(rt, "host")]
			e.ServerCert = []string{"match", "otherhost", "otherhost", "untrusted", "expired"}[rapid.IntRange(0, 4).Draw(rt, "cert")]
			entries = append(entries, e)
		}
		pki := vlib.GetPKI()
		var ups []upstream.Upstream
		var closers []func()
		defer func() {
			for _, c := range closers {
				c()
			}
		}()
		expected := -1
		for i, e := range entries {
			if e.Carrier == "stdio+tls-dead" {
				r, w, _ := os.Pipe()
				r2, w2, _ := os.Pipe()
				w.Close() // the attempt reads EOF at once and fails
				closers = append(closers, func() { r.Close(); r2.Close(); w2.Close() })
				ups = append(ups, &upstream.InputOutput{Address: addr.MustParseAddress("stdin+tls://"), Input: r, Output: w2})
				continue
			}
			tgt := vlib.NewTarget(fmt.Sprintf("server%d", i), vlib.BannerEchoHandler)
			other := map[string]string{"localhost": "127.0.0.1", "127.0.0.1": "localhost"}[e.Host]
			var sc vlib.KeyPair
			if e.ServerCert == "otherhost" {
				sc = vlib.ServerCertFor("match", other)
			} else {
				sc = vlib.ServerCertFor(e.ServerCert, e.Host)
			}
			p, err := vlib.StartPair(vlib.PairConfig{Carrier: e.Carrier, ServerCert: &sc, HostSpelling: e.Host, ClientCA: pki.CA.CertPEM,
				Channels: []vlib.ChannelSpec{{Name: "data", Target: tgt.URL()}}})
			if err != nil {
				tgt.Close()
				vlib.Rec.Inconclusive("bind")
				return
			}
			closers = append(closers, func() { p.Close(); tgt.Close() })
			ups = append(ups, p.UpstreamFor())
			if expected < 0 && e.admitted() {
				expected = i
			}
		}
		lport := vlib.Port()
		cli := &clientCmd.Command{
			ClientConfig: cert.ClientConfig{Config: cert.Config{CaCertificate: pki.CA.CertPEM}},
			Upstream:     upstream.Upstreams{Data: ups},
			ListenList: listener.Listeners{&listener.SocketListener{AbstractListener: listener.AbstractListener{ProtoName: addr.ProtoName{Name: "data"},
				Address: addr.MustParseAddress(fmt.Sprintf("tcp://127.0.0.1:%d", lport))}}},
			Secure: true,
		}
		if err := cli.Startup(make(chan os.Signal, 1)); err != nil {
			vlib.Rec.Inconclusive("bind")
			return
		}
		defer func() { defer func() { recover() }(); cli.Shutdown() }()
		c, err := net.DialTimeout("tcp", vlib.HostPort(lport), 5*time.Second)
		if err != nil {
			rt.Fatalf("dial listener: %v", err)
		}
		defer c.Close()
		c.SetDeadline(time.Now().Add(15 * time.Second))
		buf := make([]byte, 64)
		k, _ := c.Read(buf)
		got := strings.TrimSpace(string(buf[:k]))
		want := ""
		if expected >= 0 {
			want = fmt.Sprintf("server%d", expected)
		}
		desc := map[string]interface{}{"entries": entries, "expected": want, "served_by": got}
		vlib.Rec.Case(fmt.Sprintf("seq %+v", entries), true, []string{"sequence", fmt.Sprintf("entries:%d", n)}, func() interface{} { return desc })
		if got != want {
			msg := fmt.Sprintf("with one client configuration and the upstream list %+v the connection was served by %q, the truth table (each entry judged on its own) says %q", entries, got, want)
			vlib.Rec.Violation(map[string]interface{}{"property": "C05", "case": desc, "problem": msg})
			rt.Fatalf("C05 %s", msg)
		}
	})
}
