//go:build verif

package c05

import (
	"fmt"
	"os"
	"testing"
	"time"

	"github.com/bokysan/socketace/v2/internal/client/upstream"
	serverCmd "github.com/bokysan/socketace/v2/internal/commands/server"
	"github.com/bokysan/socketace/v2/internal/server"
	"github.com/bokysan/socketace/v2/internal/util/addr"
	"github.com/bokysan/socketace/v2/internal/util/cert"
	"github.com/bokysan/socketace/v2/internal/zzverif/vlib"
)

// startOn starts a real server on a fixed port: scheme tcp+tls / https with the given certificate, or tcp / http without
// one (a peer that speaks the protocol but cannot prove anything).
func startOn(scheme string, port int, kp *vlib.KeyPair, tgt *vlib.Target) (func(), error) {
	sc := cert.ServerConfig{}
	if kp != nil {
		sc.Config = cert.Config{Certificate: kp.CertPEM, PrivateKey: kp.KeyPEM}
	}
	var srv server.Server
	a := addr.MustParseAddress(scheme + "://" + vlib.HostPort(port))
	if scheme == "https" || scheme == "http" {
		srv = &server.HttpServer{ServerConfig: sc, Address: a, Endpoints: server.WebsocketEndpointList{server.HttpEndpoint{Endpoint: "/ws/all"}}}
	} else {
		srv = &server.SocketServer{ServerConfig: sc, Address: a}
	}
	cmd := &serverCmd.Command{
		Channels: server.Channels{&server.NetworkChannel{AbstractChannel: server.AbstractChannel{ProtoName: addr.ProtoName{Name: "data"}, Address: addr.MustParseAddress(tgt.URL())}}},
		Servers:  server.Servers{srv},
	}
	if err := cmd.Startup(make(chan os.Signal, 1)); err != nil {
		return nil, err
	}
	return func() { defer func() { recover() }(); cmd.Shutdown() }, nil
}

// TestSameUpstreamAgain: the client connects the same configured upstream again after a failed attempt or a lost
// session. A TLS upstream (tcp+tls, https) whose first attempt met a genuine server - with a trusted certificate
// (admitted) or an untrusted one (refused) - meets, on its second attempt, an impostor on the same address that speaks the
// protocol but has no certificate at all. It must not be admitted.
func TestSameUpstreamAgain(t *testing.T) {
	pki := vlib.GetPKI()
	for _, scheme := range []string{"tcp+tls", "https"} {
		for _, first := range []string{"match", "untrusted", "nothing-listening"} {
			for _, attempts := range []int{2, 3} {
				port := vlib.Port()
				tgt := vlib.NewTarget("data", vlib.EchoHandler)
				var up upstream.Upstream
				if scheme == "https" {
					up = &upstream.Http{Address: addr.MustParseAddress(fmt.Sprintf("https://localhost:%d/ws/all", port))}
				} else {
					up = &upstream.Socket{Address: addr.MustParseAddress(fmt.Sprintf("tcp+tls://localhost:%d", port))}
				}
				mgr := &cert.ClientConfig{Config: cert.Config{CaCertificate: pki.CA.CertPEM}}
				d := map[string]interface{}{"upstream": scheme, "first_attempt_meets": first, "attempts": attempts}
				var firstErr error
				if first != "nothing-listening" {
					kp := vlib.ServerCertFor(first, "localhost")
					stop, err := startOn(scheme, port, &kp, tgt)
					if err != nil {
						tgt.Close()
						vlib.Rec.Inconclusive("bind")
						continue
					}
					firstErr = up.Connect(mgr, false)
					if firstErr == nil {
						up.Close()
					}
					stop()
					time.Sleep(50 * time.Millisecond)
				} else {
					firstErr = up.Connect(mgr, false)
				}
				problem := ""
				if (first == "match") != (firstErr == nil) {
					problem = fmt.Sprintf("first attempt (server certificate %s): admitted=%v (%v)", first, firstErr == nil, firstErr)
				}
				// the impostor: same address, same protocol, no certificate
				plain := map[string]string{"tcp+tls": "tcp", "https": "http"}[scheme]
				stop, err := startOn(plain, port, nil, tgt)
				if err != nil {
					tgt.Close()
					vlib.Rec.Inconclusive("bind")
					continue
				}
				for k := 2; k <= attempts && problem == ""; k++ {
					if err := up.Connect(mgr, false); err == nil {
						up.SetDeadline(time.Now().Add(2 * time.Second))
						up.Write([]byte("application data"))
						up.Close()
						problem = fmt.Sprintf("attempt %d of the same %s upstream was admitted by a peer that has no certificate (first attempt: %s)", k, scheme, first)
					}
				}
				stop()
				tgt.Close()
				vlib.Rec.Case(fmt.Sprintf("again %v", d), true, []string{"same-upstream-again", "carrier:" + scheme, "first:" + first}, func() interface{} { return d })
				if problem != "" {
					vlib.Rec.Violation(map[string]interface{}{"property": "C05", "case": d, "problem": problem})
					t.Errorf("C05 %v: %s", d, problem)
				}
			}
		}
	}
}
