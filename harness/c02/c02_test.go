//go:build verif

package c02

import (
	"bytes"
	"fmt"
	"net"
	"strings"
	"sync"
	"sync/atomic"
	"testing"
	"time"

	"github.com/bokysan/socketace/v2/internal/zzverif/vlib"
	"pgregory.net/rapid"
)

func TestMain(m *testing.M) { vlib.Main(m) }

const (
	bound         = 10 * time.Second // progress bound, re-confirmed once
	maxPausedHold = 256 * 1024       // un-read bytes a paused reader may hold (total cap 1 MiB << 4 MiB)
)

// side is one end (application socket or target socket) of a logical connection with a pausable reader.
type side struct {
	conn     net.Conn
	mu       sync.Mutex
	got      bytes.Buffer
	eof      bool
	paused   bool
	resumeCh chan struct{}
	written  int // bytes this side has written so far
	stop     chan struct{}
}

func newSide(c net.Conn) *side {
	s := &side{conn: c, resumeCh: make(chan struct{}, 1), stop: make(chan struct{})}
	go s.readLoop()
	return s
}

func (s *side) readLoop() {
	buf := make([]byte, 64*1024)
	for {
		s.mu.Lock()
		p := s.paused
		s.mu.Unlock()
		if p {
			select {
			case <-s.resumeCh:
			case <-s.stop:
				return
			}
			continue
		}
		s.conn.SetReadDeadline(time.Now().Add(40 * time.Millisecond))
		n, err := s.conn.Read(buf)
		s.mu.Lock()
		s.got.Write(buf[:n])
		s.mu.Unlock()
		if err != nil {
			if ne, ok := err.(net.Error); ok && ne.Timeout() {
				select {
				case <-s.stop:
					return
				default:
				}
				continue
			}
			s.mu.Lock()
			s.eof = true
			s.mu.Unlock()
			return
		}
	}
}

func (s *side) setPaused(p bool) {
	s.mu.Lock()
	s.paused = p
	s.mu.Unlock()
	if !p {
		select {
		case s.resumeCh <- struct{}{}:
		default:
		}
	}
}

func (s *side) snapshot() ([]byte, bool) {
	s.mu.Lock()
	defer s.mu.Unlock()
	return append([]byte(nil), s.got.Bytes()...), s.eof
}

func (s *side) gotLen() int {
	s.mu.Lock()
	defer s.mu.Unlock()
	return s.got.Len()
}

func (s *side) close() {
	select {
	case <-s.stop:
	default:
		close(s.stop)
	}
	s.conn.Close()
}

type lconn struct {
	id      int
	channel int
	app     *side
	tgt     *side
	open    bool
}

func upTag(id int) uint64   { return uint64(id)*2 + 1000 }
func downTag(id int) uint64 { return uint64(id)*2 + 1001 }

type world struct {
	pair    *vlib.Pair
	targets []*vlib.Target
	conns   []*lconn
	history []string
	pending map[string]chan *vlib.TargetConn // ident -> waiter
	pmu     sync.Mutex
}

func (w *world) logf(f string, a ...interface{}) { w.history = append(w.history, fmt.Sprintf(f, a...)) }

// targetHandler reads the 8-byte ident and hands the connection to whoever opened it.
func (w *world) targetHandler(tc *vlib.TargetConn) {
	id := make([]byte, 8)
	tc.Conn.SetReadDeadline(time.Now().Add(3 * bound))
	if _, err := readFull(tc.Conn, id); err != nil {
		tc.Conn.Close()
		return
	}
	tc.Conn.SetReadDeadline(time.Time{})
	w.pmu.Lock()
	ch := w.pending[string(id)]
	w.pmu.Unlock()
	if ch != nil {
		ch <- tc
	} else {
		tc.Conn.Close()
	}
}

func readFull(c net.Conn, b []byte) (int, error) {
	n := 0
	for n < len(b) {
		k, err := c.Read(b[n:])
		n += k
		if err != nil {
			return n, err
		}
	}
	return n, nil
}

// open dials the listener of channel ch, sends the ident and waits for the target side. Returns an error text
// when the logical connection did not come up within the (re-confirmed) bound.
func (w *world) open(id, ch int) (*lconn, string) {
	ident := vlib.PRF(upTag(id), 0, 8)
	wait := make(chan *vlib.TargetConn, 1)
	w.pmu.Lock()
	w.pending[string(ident)] = wait
	w.pmu.Unlock()
	c, err := w.pair.Dial(fmt.Sprintf("ch%d", ch))
	if err != nil {
		return nil, "dial listener: " + err.Error()
	}
	c.SetWriteDeadline(time.Now().Add(bound))
	if _, err := c.Write(ident); err != nil {
		c.Close()
		return nil, "write ident: " + err.Error()
	}
	c.SetWriteDeadline(time.Time{})
	var tc *vlib.TargetConn
	select {
	case tc = <-wait:
	case <-time.After(2 * bound):
		c.Close()
		return nil, fmt.Sprintf("logical connection %d (channel ch%d) did not reach its target within %v", id, ch, 2*bound)
	}
	if tc.T != w.targets[ch] {
		c.Close()
		return nil, fmt.Sprintf("connection %d for channel ch%d arrived at target %s", id, ch, tc.T.Name)
	}
	lc := &lconn{id: id, channel: ch, app: newSide(c), tgt: newSide(tc.Conn), open: true}
	lc.app.written = 8
	lc.tgt.mu.Lock()
	lc.tgt.got.Write(ident) // the handler consumed the ident before the reader started
	lc.tgt.mu.Unlock()
	return lc, ""
}

// write sends the next n bytes of the direction's PRF stream from the given side.
func (w *world) write(lc *lconn, fromApp bool, n int) string {
	s, tag := lc.tgt, downTag(lc.id)
	if fromApp {
		s, tag = lc.app, upTag(lc.id)
	}
	data := vlib.PRF(tag, s.written, n)
	s.conn.SetWriteDeadline(time.Now().Add(2 * bound))
	k, err := s.conn.Write(data)
	s.conn.SetWriteDeadline(time.Time{})
	s.written += k
	if err != nil {
		return fmt.Sprintf("write of %d bytes on connection %d (fromApp=%v) failed after %d: %v", n, lc.id, fromApp, k, err)
	}
	return ""
}

// settle checks the model invariant: every open connection's received bytes are a prefix of what its peer
// wrote, and non-paused readers have received everything within the bound.
func (w *world) settle() string {
	deadline := time.Now().Add(bound)
	extended := false
	for {
		pendingMsg := ""
		for _, lc := range w.conns {
			if !lc.open {
				continue
			}
			for _, dir := range []struct {
				reader *side
				writer *side
				tag    uint64
				name   string
			}{{lc.tgt, lc.app, upTag(lc.id), "app->target"}, {lc.app, lc.tgt, downTag(lc.id), "target->app"}} {
				got, eof := dir.reader.snapshot()
				want := vlib.PRF(dir.tag, 0, dir.writer.written)
				if len(got) > len(want) {
					return fmt.Sprintf("connection %d %s: received %d bytes but only %d were written", lc.id, dir.name, len(got), len(want))
				}
				if off := vlib.FirstDiff(got, want[:len(got)]); off != -1 {
					return fmt.Sprintf("connection %d %s: byte at offset %d differs (cross-talk or corruption): got %x.. want %x..", lc.id, dir.name, off, got[off:minInt(off+8, len(got))], want[off:minInt(off+8, len(want))])
				}
				if eof && len(got) < len(want) {
					return fmt.Sprintf("connection %d %s: stream ended after %d of %d bytes", lc.id, dir.name, len(got), len(want))
				}
				dir.reader.mu.Lock()
				paused := dir.reader.paused
				dir.reader.mu.Unlock()
				if !paused && len(got) < len(want) {
					pendingMsg = fmt.Sprintf("connection %d %s: %d of %d bytes arrived", lc.id, dir.name, len(got), len(want))
				}
			}
		}
		if pendingMsg == "" {
			return ""
		}
		if time.Now().After(deadline) {
			if !extended {
				extended = true
				deadline = time.Now().Add(bound) // re-confirm the stall once
				continue
			}
			return "no progress within the bound while other connections are idle/paused/closing: " + pendingMsg
		}
		time.Sleep(2 * time.Millisecond)
	}
}

func minInt(a, b int) int {
	if a < b {
		return a
	}
	return b
}

var carriers = []string{vlib.CarTCP, vlib.CarStdio, vlib.CarHTTP, vlib.CarUDP, vlib.CarTCPTLS, vlib.CarUnix, vlib.CarHTTPS}

func TestIsolation(t *testing.T) {
	rapid.Check(t, func(rt *rapid.T) {
		ncar := vlib.Pick(4, len(carriers))
		carrier := carriers[rapid.IntRange(0, ncar-1).Draw(rt, "carrier")]
		startTLS := rapid.IntRange(0, 3).Draw(rt, "starttls") == 0 && !strings.Contains(carrier, "tls") && carrier != vlib.CarHTTPS
		w := &world{pending: map[string]chan *vlib.TargetConn{}}
		w.targets = []*vlib.Target{vlib.NewTarget("t0", w.targetHandler), vlib.NewTarget("t1", w.targetHandler)}
		defer w.targets[0].Close()
		defer w.targets[1].Close()
		// "stuckch" is a channel whose target neither accepts nor refuses (a host that stopped answering): an open
		// towards it stays pending for minutes on the server
		stuck, _ := vlib.NewStuckTarget()
		stuckURL := "tcp://" + vlib.HostPort(vlib.Port())
		if stuck != nil {
			defer stuck.Close()
			stuckURL = stuck.URL()
		}
		var pendingConns []net.Conn
		defer func() {
			for _, c := range pendingConns {
				c.Close()
			}
		}()
		cfg := vlib.PairConfig{Carrier: carrier, ClientInsecure: true,
			// "deadch" is a channel whose target refuses connections (a port of the harness's range nobody listens on)
			Channels: []vlib.ChannelSpec{{Name: "ch0", Target: w.targets[0].URL()}, {Name: "ch1", Target: w.targets[1].URL()},
				{Name: "deadch", Target: "tcp://" + vlib.HostPort(vlib.Port())}, {Name: "stuckch", Target: stuckURL}},
			// "nochan" is a listener for a channel the server does not have: requests for it are refused
			Listeners: []vlib.ListenerSpec{{Channel: "ch0"}, {Channel: "ch1"}, {Channel: "nochan"}, {Channel: "deadch"}, {Channel: "stuckch"}}}
		if startTLS || strings.Contains(carrier, "tls") || carrier == vlib.CarHTTPS {
			cfg.ServerCert = &vlib.GetPKI().ServerGood
		}
		p, err := vlib.StartPair(cfg)
		if err != nil {
			if vlib.IsBindError(err) {
				vlib.Rec.Inconclusive("bind")
				return
			}
			rt.Fatalf("pair start: %v", err)
		}
		w.pair = p
		defer func() {
			for _, lc := range w.conns {
				lc.app.close()
				lc.tgt.close()
			}
			p.Close()
		}()
		vlib.Tap.Reset()

		maxOpen, sawConcurrentWrite, pauses, closesWhileActive, bursts, refusals, pendingOpens := 0, false, 0, 0, 0, 0, 0
		fail := func(msg string) {
			vlib.Rec.Violation(map[string]interface{}{"property": "C02", "carrier": carrier, "starttls": startTLS, "history": w.history, "problem": msg, "log": vlib.Tap.Tail(8)})
			rt.Fatalf("C02 carrier=%s starttls=%v: %s\nhistory: %v\nlog: %v", carrier, startTLS, msg, w.history, vlib.Tap.Tail(8))
		}
		openConns := func() []*lconn {
			var o []*lconn
			for _, lc := range w.conns {
				if lc.open {
					o = append(o, lc)
				}
			}
			return o
		}
		pausedHold := func(lc *lconn, fromApp bool) int {
			r, wr := lc.tgt, lc.app
			if !fromApp {
				r, wr = lc.app, lc.tgt
			}
			r.mu.Lock()
			defer r.mu.Unlock()
			if !r.paused {
				return 0
			}
			return wr.written - r.got.Len()
		}
		doOpen := func(rt *rapid.T) {
			if len(openConns()) >= 8 {
				rt.Skip("enough connections")
			}
			ch := rapid.IntRange(0, 1).Draw(rt, "channel")
			id := len(w.conns)
			w.logf("open #%d ch%d", id, ch)
			lc, msg := w.open(id, ch)
			if msg != "" {
				fail(msg)
			}
			w.conns = append(w.conns, lc)
			if n := len(openConns()); n > maxOpen {
				maxOpen = n
			}
		}
		// openMany opens k logical connections at the same instant (goroutines released together): at a cold start
		// this is the schedule in which several openers find no physical session yet
		openMany := func(rt *rapid.T, k int, what string) {
			chs := make([]int, k)
			for i := range chs {
				chs[i] = rapid.IntRange(0, 1).Draw(rt, "channel")
			}
			base := len(w.conns)
			lcs := make([]*lconn, k)
			msgs := make([]string, k)
			start := make(chan struct{})
			var wg sync.WaitGroup
			for i := 0; i < k; i++ {
				wg.Add(1)
				go func(i int) {
					defer wg.Done()
					<-start
					lcs[i], msgs[i] = w.open(base+i, chs[i])
				}(i)
			}
			close(start)
			wg.Wait()
			w.logf("%s: %d concurrent opens on channels %v", what, k, chs)
			for i := 0; i < k; i++ {
				if msgs[i] != "" {
					fail(fmt.Sprintf("%s (%d opened together): %s", what, k, msgs[i]))
				}
				w.conns = append(w.conns, lcs[i])
			}
			if n := len(openConns()); n > maxOpen {
				maxOpen = n
			}
			bursts++
		}
		if rapid.Bool().Draw(rt, "coldConcurrent") {
			openMany(rt, rapid.IntRange(2, 6).Draw(rt, "coldK"), "cold start")
		} else {
			doOpen(rt)
			doOpen(rt)
		}

		pickOpen := func(rt *rapid.T) *lconn {
			o := openConns()
			if len(o) == 0 {
				rt.Skip("no open connection")
			}
			return o[rapid.IntRange(0, len(o)-1).Draw(rt, "conn")]
		}
		drawN := func(rt *rapid.T) int {
			switch rapid.IntRange(0, 3).Draw(rt, "nKind") {
			case 0:
				return rapid.IntRange(1, 64).Draw(rt, "n")
			case 1:
				return []int{4096, 32640, 32768, 65536, 65537}[rapid.IntRange(0, 4).Draw(rt, "nB")]
			default:
				return rapid.IntRange(1, 200000).Draw(rt, "n")
			}
		}
		rt.Repeat(map[string]func(*rapid.T){
			"open": doOpen,
			"write": func(rt *rapid.T) {
				lc := pickOpen(rt)
				fromApp := rapid.Bool().Draw(rt, "fromApp")
				n := drawN(rt)
				if h := pausedHold(lc, fromApp); h+n > maxPausedHold {
					rt.Skip("would exceed what a paused reader may hold")
				}
				if len(openConns()) >= 2 {
					sawConcurrentWrite = true
				}
				w.logf("write #%d fromApp=%v n=%d", lc.id, fromApp, n)
				if msg := w.write(lc, fromApp, n); msg != "" {
					fail(msg)
				}
			},
			"openMany": func(rt *rapid.T) {
				room := 8 - len(openConns())
				if room < 2 {
					rt.Skip("enough connections")
				}
				openMany(rt, rapid.IntRange(2, minInt(4, room)).Draw(rt, "k"), "concurrent opens")
			},
			"pendingOpen": func(rt *rapid.T) {
				// somebody asks for the channel whose target does not answer: that open stays pending on the server, and
				// stays that connection's own business - everything the other actions do afterwards must still make
				// progress within the bound
				if stuck == nil || len(pendingConns) >= 2 {
					rt.Skip("no stuck target / enough pending opens")
				}
				c, err := w.pair.Dial("stuckch")
				if err != nil {
					fail("dial listener of the channel whose target does not answer: " + err.Error())
				}
				c.Write([]byte("anybody there?"))
				pendingConns = append(pendingConns, c)
				pendingOpens++
				w.logf("pendingOpen #%d", len(pendingConns))
			},
			"refusedOpen": func(rt *rapid.T) {
				// somebody asks for a channel the server does not offer while the others are busy: the refusal must
				// stay that logical connection's own business
				which := rapid.SampledFrom([]string{"nochan", "deadch"}).Draw(rt, "refused")
				c, err := w.pair.Dial(which)
				if err != nil {
					fail("dial listener of the channel that cannot be served (" + which + "): " + err.Error())
				}
				c.SetDeadline(time.Now().Add(bound))
				c.Write([]byte("hello?"))
				buf := make([]byte, 16)
				n, rerr := c.Read(buf)
				c.Close()
				w.logf("refusedOpen %s -> %d bytes, %v", which, n, rerr)
				if n > 0 {
					fail(fmt.Sprintf("a request for a channel the server cannot serve (%s) returned %d bytes of data", which, n))
				}
				refusals++
			},
			"burst": func(rt *rapid.T) {
				o := openConns()
				if len(o) < 2 {
					rt.Skip("burst needs two connections")
				}
				k := rapid.IntRange(2, minInt(6, 2*len(o))).Draw(rt, "k")
				type job struct {
					lc      *lconn
					fromApp bool
					n       int
				}
				var jobs []job
				used := map[string]bool{}
				for i := 0; i < k; i++ {
					lc := o[rapid.IntRange(0, len(o)-1).Draw(rt, "conn")]
					fromApp := rapid.Bool().Draw(rt, "fromApp")
					key := fmt.Sprintf("%d/%v", lc.id, fromApp)
					n := drawN(rt)
					if used[key] || pausedHold(lc, fromApp)+n > maxPausedHold {
						continue
					}
					used[key] = true
					jobs = append(jobs, job{lc, fromApp, n})
				}
				if len(jobs) < 2 {
					rt.Skip("burst degenerated")
				}
				bursts++
				sawConcurrentWrite = true
				w.logf("burst %d writes", len(jobs))
				var wg sync.WaitGroup
				msgs := make([]string, len(jobs))
				for i, j := range jobs {
					wg.Add(1)
					go func(i int, j job) {
						defer wg.Done()
						msgs[i] = w.write(j.lc, j.fromApp, j.n)
					}(i, j)
				}
				wg.Wait()
				for i, m := range msgs {
					w.logf("  burst write #%d fromApp=%v n=%d", jobs[i].lc.id, jobs[i].fromApp, jobs[i].n)
					if m != "" {
						fail(m)
					}
				}
			},
			"pause": func(rt *rapid.T) {
				lc := pickOpen(rt)
				atApp := rapid.Bool().Draw(rt, "atApp")
				s := lc.tgt
				if atApp {
					s = lc.app
				}
				s.setPaused(true)
				pauses++
				w.logf("pause #%d atApp=%v", lc.id, atApp)
				time.Sleep(60 * time.Millisecond) // let an in-flight Read return
			},
			"resume": func(rt *rapid.T) {
				lc := pickOpen(rt)
				lc.app.setPaused(false)
				lc.tgt.setPaused(false)
				w.logf("resume #%d", lc.id)
			},
			"close": func(rt *rapid.T) {
				o := openConns()
				if len(o) < 2 {
					rt.Skip("keep one connection")
				}
				lc := o[rapid.IntRange(0, len(o)-1).Draw(rt, "conn")]
				byApp := rapid.Bool().Draw(rt, "byApp")
				// settle first: this action is about the *other* connections surviving a close
				if msg := w.settle(); msg != "" {
					fail(msg)
				}
				lc.open = false
				closesWhileActive++
				w.logf("close #%d byApp=%v", lc.id, byApp)
				if byApp {
					lc.app.close()
				} else {
					lc.tgt.close()
				}
			},
			"": func(rt *rapid.T) {
				if msg := w.settle(); msg != "" {
					fail(msg)
				}
			},
		})
		// final: resume everything, everything written must arrive
		for _, lc := range openConns() {
			lc.app.setPaused(false)
			lc.tgt.setPaused(false)
		}
		if msg := w.settle(); msg != "" {
			fail("after resuming all readers: " + msg)
		}
		nontrivial := maxOpen >= 2 && sawConcurrentWrite
		labels := []string{"carrier:" + carrier, fmt.Sprintf("maxopen:%d", maxOpen)}
		if startTLS {
			labels = append(labels, "starttls")
		}
		if pauses > 0 {
			labels = append(labels, "paused")
		}
		if closesWhileActive > 0 {
			labels = append(labels, "close-while-others-active")
		}
		if bursts > 0 {
			labels = append(labels, "burst")
		}
		if pendingOpens > 0 {
			labels = append(labels, "open-pending-on-an-unanswering-target")
		}
		if refusals > 0 {
			labels = append(labels, "refused-open-among-others")
		}
		h := append([]string{"carrier=" + carrier}, w.history...)
		vlib.Rec.Case(strings.Join(h, ";"), nontrivial, labels, func() interface{} { return h })
	})
}

// TestSlowReaderWithinTheSharedBuffer: "An open connection ... whose reader is merely slow never delays the others", for
// stalled connections that hold less unread data than the multiplexer's shared 4 MiB receive buffer. The stalled
// connection's target sits on a unix-domain socket (about 200 KiB of kernel buffering; a loop-back TCP target would
// absorb several MiB in the kernel and the tunnel's own buffer would never fill), reads nothing, and is sent a drawn
// 0.7-3 MiB. Meanwhile an established connection and a freshly opened one on the same session must complete echo
// round trips; after the release everything must arrive at the slow target.
func TestSlowReaderWithinTheSharedBuffer(t *testing.T) {
	budget := int32(vlib.Pick(12, 120))
	var ran int32
	rapid.Check(t, func(rt *rapid.T) {
		if atomic.AddInt32(&ran, 1) > budget {
			return
		}
		carrier := []string{vlib.CarTCP, vlib.CarHTTP, vlib.CarTCPTLS, vlib.CarUnix, vlib.CarStdio}[rapid.IntRange(0, 4).Draw(rt, "carrier")]
		stalled := rapid.IntRange(700*1024, 3*1024*1024).Draw(rt, "stalledBytes")
		parts := rapid.IntRange(1, 40).Draw(rt, "writes")
		d := map[string]interface{}{"carrier": carrier, "bytes_sent_to_the_slow_reader": stalled, "in_writes": parts}
		fail := func(msg string) {
			vlib.Rec.Violation(map[string]interface{}{"property": "C02", "slow_reader_case": d, "problem": msg, "log": vlib.Tap.Tail(10)})
			rt.Fatalf("C02 slow reader %v: %s", d, msg)
		}
		release := make(chan struct{})
		type got struct {
			n   int
			bad int
		}
		sinkGot := make(chan got, 1)
		payload := vlib.PRF(4242, 0, stalled)
		sink := vlib.NewUnixTarget("sink", func(tc *vlib.TargetConn) {
			defer tc.Conn.Close()
			<-release
			buf := make([]byte, 64*1024)
			n, bad := 0, -1
			tc.Conn.SetReadDeadline(time.Now().Add(30 * time.Second))
			for n < stalled {
				k, err := tc.Conn.Read(buf)
				if bad == -1 {
					if off := vlib.FirstDiff(buf[:k], payload[n:n+k]); off != -1 {
						bad = n + off
					}
				}
				n += k
				if err != nil {
					break
				}
			}
			sinkGot <- got{n, bad}
		})
		defer sink.Close()
		echo := vlib.NewTarget("echo", vlib.EchoHandler)
		defer echo.Close()
		cfg := vlib.PairConfig{Carrier: carrier, ClientInsecure: true,
			Channels:  []vlib.ChannelSpec{{Name: "sink", Target: sink.URL()}, {Name: "echo", Target: echo.URL()}},
			Listeners: []vlib.ListenerSpec{{Channel: "sink"}, {Channel: "echo"}}}
		if strings.Contains(carrier, "tls") {
			cfg.ServerCert = &vlib.GetPKI().ServerGood
		}
		vlib.Tap.Reset()
		p, err := vlib.StartPair(cfg)
		if err != nil {
			if vlib.IsBindError(err) {
				vlib.Rec.Inconclusive("bind")
				return
			}
			rt.Fatalf("pair start: %v", err)
		}
		defer p.Close()
		defer func() {
			select {
			case <-release:
			default:
				close(release)
			}
		}()
		roundTrip := func(c net.Conn, tag uint64) string {
			msg := vlib.PRF(tag, 0, 2000)
			c.SetDeadline(time.Now().Add(bound))
			if _, err := c.Write(msg); err != nil {
				return "write: " + err.Error()
			}
			g, err := vlib.ReadFullTimeout(c, len(msg), bound)
			if vlib.FirstDiff(g, msg) != -1 {
				return fmt.Sprintf("%d of %d echo bytes within %v (%v)", len(g), len(msg), bound, err)
			}
			return ""
		}
		b, err := p.Dial("echo")
		if err != nil {
			rt.Fatalf("dial: %v", err)
		}
		defer b.Close()
		if m := roundTrip(b, 1); m != "" {
			fail("echo connection before anything stalls: " + m)
		}
		a, err := p.Dial("sink")
		if err != nil {
			rt.Fatalf("dial: %v", err)
		}
		defer a.Close()
		wdone := make(chan error, 1)
		go func() {
			sizes := make([]int, parts)
			for i := range sizes {
				sizes[i] = stalled/parts + 1
			}
			a.SetWriteDeadline(time.Now().Add(60 * time.Second))
			wdone <- vlib.WriteParts(a, payload, sizes, 0)
		}()
		time.Sleep(700 * time.Millisecond) // let the unread data pile up inside the tunnel
		if m := roundTrip(b, 2); m != "" {
			fail(fmt.Sprintf("the established connection is delayed while another connection's reader holds at most %d unread bytes: %s", stalled, m))
		}
		c, err := p.Dial("echo")
		if err != nil {
			rt.Fatalf("dial: %v", err)
		}
		defer c.Close()
		if m := roundTrip(c, 3); m != "" {
			fail(fmt.Sprintf("a connection opened while another connection's reader holds at most %d unread bytes is delayed: %s", stalled, m))
		}
		close(release)
		select {
		case err := <-wdone:
			if err != nil {
				fail("write towards the slow reader failed after its release: " + err.Error())
			}
		case <-time.After(40 * time.Second):
			fail("write towards the slow reader did not complete after its release")
		}
		select {
		case g := <-sinkGot:
			if g.n != stalled || g.bad != -1 {
				fail(fmt.Sprintf("the slow reader received %d of %d bytes, first difference at %d", g.n, stalled, g.bad))
			}
		case <-time.After(40 * time.Second):
			fail("the slow reader did not receive its data after the release")
		}
		vlib.Rec.Case(fmt.Sprintf("slow-reader %v", d), true, []string{"slow-reader-within-shared-buffer", "carrier:" + carrier}, func() interface{} { return d })
	})
}

// TestConcurrentOpensAfterCarrierLoss: "each makes progress regardless of whether the others are being ... opened" also
// on the client's recovery path. One connection establishes the session; the carrier is lost (drawn: reset, orderly end, or
// silence followed by a reset while new opens already hang on the old session); then 2-5 logical connections are opened at
// the same instant. Every one of them must echo its own data, none may be reset because a neighbour is being opened, and
// the client may dial at most one new physical connection.
func TestConcurrentOpensAfterCarrierLoss(t *testing.T) {
	budget := int32(vlib.Pick(12, 150))
	var ran int32
	rapid.Check(t, func(rt *rapid.T) {
		if atomic.AddInt32(&ran, 1) > budget {
			return
		}
		carrier := []string{vlib.CarTCP, vlib.CarHTTP, vlib.CarTCPTLS}[rapid.IntRange(0, 2).Draw(rt, "carrier")]
		loss := []string{"cut-rst", "cut-fin", "silent-then-rst"}[rapid.IntRange(0, 2).Draw(rt, "loss")]
		k := rapid.IntRange(2, 5).Draw(rt, "opens")
		d := map[string]interface{}{"carrier": carrier, "loss": loss, "concurrent_opens_after_the_loss": k}
		fail := func(msg string) {
			vlib.Rec.Violation(map[string]interface{}{"property": "C02", "recovery_case": d, "problem": msg, "log": vlib.Tap.Tail(10)})
			rt.Fatalf("C02 recovery %v: %s", d, msg)
		}
		echo := vlib.NewTarget("echo", vlib.EchoHandler)
		defer echo.Close()
		cfg := vlib.PairConfig{Carrier: carrier, ClientInsecure: true, ViaRelay: true,
			Channels:  []vlib.ChannelSpec{{Name: "echo", Target: echo.URL()}},
			Listeners: []vlib.ListenerSpec{{Channel: "echo"}}}
		if strings.Contains(carrier, "tls") {
			cfg.ServerCert = &vlib.GetPKI().ServerGood
		}
		vlib.Tap.Reset()
		p, err := vlib.StartPair(cfg)
		if err != nil {
			if vlib.IsBindError(err) {
				vlib.Rec.Inconclusive("bind")
				return
			}
			rt.Fatalf("pair start: %v", err)
		}
		defer p.Close()
		roundTrips := func(c net.Conn, tag uint64, n int) string {
			for i := 0; i < n; i++ {
				msg := vlib.PRF(tag+uint64(i), 0, 300)
				c.SetDeadline(time.Now().Add(bound))
				if _, err := c.Write(msg); err != nil {
					return fmt.Sprintf("write %d: %v", i, err)
				}
				g, err := vlib.ReadFullTimeout(c, len(msg), bound)
				if vlib.FirstDiff(g, msg) != -1 {
					return fmt.Sprintf("echo %d: %d of %d bytes (%v)", i, len(g), len(msg), err)
				}
			}
			return ""
		}
		x, err := p.Dial("echo")
		if err != nil {
			rt.Fatalf("dial: %v", err)
		}
		if m := roundTrips(x, 1, 1); m != "" {
			fail("first connection: " + m)
		}
		x.Close()
		before := p.Relay.Connections()
		results := make([]string, k)
		var wg sync.WaitGroup
		open := func() {
			start := make(chan struct{})
			for i := 0; i < k; i++ {
				wg.Add(1)
				go func(i int) {
					defer wg.Done()
					<-start
					c, err := p.Dial("echo")
					if err != nil {
						results[i] = "dial: " + err.Error()
						return
					}
					defer c.Close()
					results[i] = roundTrips(c, uint64(100*(i+1)), 5)
				}(i)
			}
			close(start)
		}
		switch loss {
		case "cut-rst":
			p.Relay.Cut(true)
			time.Sleep(50 * time.Millisecond)
			open()
		case "cut-fin":
			p.Relay.Cut(false)
			time.Sleep(50 * time.Millisecond)
			open()
		default:
			// the carrier goes silent, the opens hang on the old session, then the carrier is cut
			p.Relay.DelayUp, p.Relay.DelayDown = time.Hour, time.Hour
			open()
			time.Sleep(400 * time.Millisecond)
			p.Relay.DelayUp, p.Relay.DelayDown = 0, 0
			p.Relay.Cut(true)
		}
		wg.Wait()
		for i, r := range results {
			if r != "" {
				fail(fmt.Sprintf("connection %d of %d opened at the same instant after the carrier was lost (%s): %s; results of all: %v", i, k, loss, r, results))
			}
		}
		if n := p.Relay.Connections() - before; n > 1 {
			fail(fmt.Sprintf("%d connections opened at the same instant after the carrier was lost made the client dial %d new physical connections, want 1", k, n))
		}
		vlib.Rec.Case(fmt.Sprintf("recovery %v", d), true, []string{"concurrent-opens-after-carrier-loss", "carrier:" + carrier, "loss:" + loss}, func() interface{} { return d })
	})
}
