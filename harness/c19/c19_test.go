//go:build verif

package c19

import (
	"errors"
	"fmt"
	"io"
	"net"
	"strings"
	"testing"
	"time"

	"github.com/bokysan/socketace/v2/internal/streams"
	"github.com/bokysan/socketace/v2/internal/zzverif/vlib"
	"pgregory.net/rapid"
)

func TestMain(m *testing.M) { vlib.Main(m) }

// ---- counting fakes -------------------------------------------------------------------------------------

type fake struct {
	id         int
	closeCount int
	failClose  bool
	reads      int
	writes     int
	exhausted  bool // the input has ended: reads report end-of-stream
}

var errFakeClose = errors.New("fake close failure")

func (f *fake) Read(p []byte) (int, error) {
	f.reads++
	if f.closeCount > 0 {
		return 0, io.ErrClosedPipe
	}
	if f.exhausted {
		return 0, io.EOF
	}
	n := copy(p, "0123456789abcdef")
	return n, nil
}
func (f *fake) Write(p []byte) (int, error) {
	f.writes++
	if f.closeCount > 0 {
		return 0, io.ErrClosedPipe
	}
	return len(p), nil
}
func (f *fake) Close() error {
	f.closeCount++
	if f.failClose {
		return errFakeClose
	}
	return nil
}

type fakeAddr string

func (a fakeAddr) Network() string { return "fake" }
func (a fakeAddr) String() string  { return string(a) }

// fakeConn is a net.Conn over a fake.
type fakeConn struct{ *fake }

func (c fakeConn) LocalAddr() net.Addr                { return fakeAddr("local") }
func (c fakeConn) RemoteAddr() net.Addr               { return fakeAddr("remote") }
func (c fakeConn) SetDeadline(t time.Time) error      { return nil }
func (c fakeConn) SetReadDeadline(t time.Time) error  { return nil }
func (c fakeConn) SetWriteDeadline(t time.Time) error { return nil }

// fakeR / fakeW expose only one half.
type fakeR struct{ f *fake }

func (r fakeR) Read(p []byte) (int, error) { return r.f.Read(p) }
func (r fakeR) Close() error               { return r.f.Close() }

type fakeW struct{ f *fake }

func (w fakeW) Write(p []byte) (int, error) { return w.f.Write(p) }
func (w fakeW) Close() error                { return w.f.Close() }

type fakeRWC struct{ f *fake }

func (s fakeRWC) Read(p []byte) (int, error)  { return s.f.Read(p) }
func (s fakeRWC) Write(p []byte) (int, error) { return s.f.Write(p) }
func (s fakeRWC) Close() error                { return s.f.Close() }

// ---- model ----------------------------------------------------------------------------------------------

type node struct {
	id       int
	kind     string // constructor name or fake kind
	depth    int    // 0 for fakes
	obj      interface{}
	children []*node
	leaf     *fake // non-nil for fakes
	parents  int

	closeCalls int // Close/TryClose/LogClose requests issued on this very node
}

func (n *node) conn() (net.Conn, bool)          { c, ok := n.obj.(net.Conn); return c, ok }
func (n *node) rwc() (io.ReadWriteCloser, bool) { c, ok := n.obj.(io.ReadWriteCloser); return c, ok }
func (n *node) reader() (io.ReadCloser, bool)   { c, ok := n.obj.(io.ReadCloser); return c, ok }
func (n *node) writer() (io.WriteCloser, bool)  { c, ok := n.obj.(io.WriteCloser); return c, ok }
func (n *node) closedQ() (streams.Closed, bool) { c, ok := n.obj.(streams.Closed); return c, ok }
func (n *node) isFake() bool                    { return n.leaf != nil }
func (n *node) pureReader() bool                { _, r := n.reader(); _, w := n.writer(); return r && !w }
func (n *node) pureWriter() bool                { _, r := n.reader(); _, w := n.writer(); return w && !r }
func (n *node) String() string                  { return fmt.Sprintf("#%d:%s", n.id, n.kind) }

type machine struct {
	nodes   []*node
	history []string
	// bystanders: resources handed to a wrapper only for their addresses (the connection below a stream-wrapped
	// connection); no wrapper closes them
	bystanders []*fake
	nextID     int
}

func (m *machine) add(kind string, obj interface{}, children ...*node) *node {
	d := 0
	for _, c := range children {
		c.parents++
		if c.depth+1 > d {
			d = c.depth + 1
		}
	}
	n := &node{id: m.nextID, kind: kind, obj: obj, children: children, depth: d}
	m.nextID++
	m.nodes = append(m.nodes, n)
	return n
}

func (m *machine) leaves(n *node, acc map[*fake]bool) {
	if n.leaf != nil {
		acc[n.leaf] = true
	}
	for _, c := range n.children {
		m.leaves(c, acc)
	}
}

func (m *machine) descendants(n *node, acc map[*node]bool) {
	for _, c := range n.children {
		if !acc[c] {
			acc[c] = true
			m.descendants(c, acc)
		}
	}
}

// closeRequestedAbove: Close was requested on n or on a node that wraps n (directly or not).
func (m *machine) closeRequestedAbove(n *node) bool {
	if n.closeCalls > 0 {
		return true
	}
	for _, p := range m.nodes {
		if p.closeCalls == 0 {
			continue
		}
		d := map[*node]bool{}
		m.descendants(p, d)
		if d[n] {
			return true
		}
	}
	return false
}

func (m *machine) closeRequestedBelow(n *node) bool {
	d := map[*node]bool{}
	m.descendants(n, d)
	for c := range d {
		if c.closeCalls > 0 {
			return true
		}
	}
	return false
}

// sharesStateWithClosed: some other node that had Close requested shares a leaf with n (e.g. because a Safe
// wrapper was reused instead of re-created); then n's status is not determined by the property text.
func (m *machine) sharesLeafWithClosed(n *node) bool {
	mine := map[*fake]bool{}
	m.leaves(n, mine)
	for _, p := range m.nodes {
		if p == n || p.closeCalls == 0 {
			continue
		}
		theirs := map[*fake]bool{}
		m.leaves(p, theirs)
		for f := range theirs {
			if mine[f] {
				return true
			}
		}
	}
	return false
}

func (m *machine) invariant(rt *rapid.T) {
	for _, f := range m.bystanders {
		if f.closeCount != 0 {
			rt.Fatalf("a connection that was only lent to a stream-wrapped connection for its addresses was closed %d times (history: %v)", f.closeCount, m.history)
		}
	}
	for _, n := range m.nodes {
		if n.leaf != nil && n.leaf.closeCount > 1 {
			rt.Fatalf("underlying resource of %v closed %d times (history: %v)", n, n.leaf.closeCount, m.history)
		}
		if n.closeCalls > 0 {
			acc := map[*fake]bool{}
			m.leaves(n, acc)
			for f := range acc {
				if f.closeCount != 1 {
					rt.Fatalf("%v was closed but underlying fake %d has close count %d (history: %v)", n, f.id, f.closeCount, m.history)
				}
			}
		}
	}
}

type wrapper struct {
	name  string
	needs string // conn, rwc, reader, writer, pair
	build func(m *machine, a, b *node) interface{}
}

var wrappers = []wrapper{
	{"SafeConnection", "conn", func(m *machine, a, b *node) interface{} { c, _ := a.conn(); return streams.NewSafeConnection(c) }},
	{"NamedConnection", "conn", func(m *machine, a, b *node) interface{} { c, _ := a.conn(); return streams.NewNamedConnection(c, "nc") }},
	{"BufferedInputConnection", "conn", func(m *machine, a, b *node) interface{} {
		c, _ := a.conn()
		return streams.NewBufferedInputConnection(c)
	}},
	{"SafeStream", "rwc", func(m *machine, a, b *node) interface{} { c, _ := a.rwc(); return streams.NewSafeStream(c) }},
	{"NamedStream", "rwc", func(m *machine, a, b *node) interface{} { c, _ := a.rwc(); return streams.NewNamedStream(c, "ns") }},
	{"SimulatedConnection", "rwc", func(m *machine, a, b *node) interface{} {
		c, _ := a.rwc()
		return streams.NewSimulatedConnection(c, fakeAddr("l"), fakeAddr("r"))
	}},
	{"StreamWrappedConnection", "rwc", func(m *machine, a, b *node) interface{} {
		c, _ := a.rwc()
		// the connection "below the stream" is the stream's own resource when that is a connection (the usual way a
		// stream is layered over a connection), else a connection of its own
		if a.isFake() {
			if _, ok := a.obj.(net.Conn); ok {
				return streams.NewStreamConnection(c, fakeConn{a.leaf})
			}
		}
		other := &fake{id: -1 - len(m.bystanders)}
		m.bystanders = append(m.bystanders, other)
		return streams.NewStreamConnection(c, fakeConn{other})
	}},
	{"SafeReader", "reader", func(m *machine, a, b *node) interface{} { c, _ := a.reader(); return streams.NewSafeReader(c) }},
	{"NamedReader", "reader", func(m *machine, a, b *node) interface{} { c, _ := a.reader(); return streams.NewNamedReader(c, "nr") }},
	{"SafeWriter", "writer", func(m *machine, a, b *node) interface{} { c, _ := a.writer(); return streams.NewSafeWriter(c) }},
	{"NamedWriter", "writer", func(m *machine, a, b *node) interface{} { c, _ := a.writer(); return streams.NewNamedWriter(c, "nw") }},
	{"ReadWriteCloser", "pair", func(m *machine, a, b *node) interface{} {
		r, _ := a.reader()
		w, _ := b.writer()
		return streams.NewReadWriteCloser(r, w)
	}},
}

func (m *machine) candidates(need string, maxDepth int) []*node {
	var out []*node
	for _, n := range m.nodes {
		if n.depth >= maxDepth {
			continue
		}
		if n.isFake() && n.parents > 0 {
			continue // a raw resource has a single owner
		}
		ok := false
		switch need {
		case "conn":
			_, ok = n.conn()
		case "rwc":
			_, ok = n.rwc()
		case "reader":
			ok = n.pureReader()
		case "writer":
			ok = n.pureWriter()
		}
		if ok {
			out = append(out, n)
		}
	}
	return out
}

const maxDepth = 4

func TestWrapperCloseOnce(t *testing.T) {
	rapid.Check(t, func(rt *rapid.T) {
		m := &machine{}
		nfakes := 0
		newFake := func(kind string) *node {
			f := &fake{id: nfakes, failClose: rapid.IntRange(0, 3).Draw(rt, "failClose") == 0}
			nfakes++
			var obj interface{}
			switch kind {
			case "fakeConn":
				obj = fakeConn{f}
			case "fakeRWC":
				obj = fakeRWC{f}
			case "fakeR":
				obj = fakeR{f}
			case "fakeW":
				obj = fakeW{f}
			}
			n := m.add(kind, obj)
			n.leaf = f
			m.history = append(m.history, fmt.Sprintf("new %v failClose=%v", n, f.failClose))
			return n
		}
		kinds := []string{"fakeConn", "fakeRWC", "fakeR", "fakeW"}
		newFake(kinds[rapid.IntRange(0, 3).Draw(rt, "kind0")])

		maxObservedDepth := 0
		innerBeforeOuter := false
		failing := false
		closes := 0

		pick := func(label string) *node {
			return m.nodes[rapid.IntRange(0, len(m.nodes)-1).Draw(rt, label)]
		}
		doClose := func(n *node, how string) {
			wasRequested := n.closeCalls > 0
			// inner layer closed before an enclosing one?
			if n.parents > 0 && !m.closeRequestedAbove(n) {
				innerBeforeOuter = true
			}
			var err error
			switch how {
			case "Close":
				err = n.obj.(io.Closer).Close()
			case "TryClose":
				streams.TryClose(n.obj.(io.Closer))
			case "LogClose":
				err = streams.LogClose(n.obj.(io.Closer))
			}
			n.closeCalls++
			closes++
			m.history = append(m.history, fmt.Sprintf("%s %v -> %v", how, n, err))
			if n.isFake() {
				return
			}
			if wasRequested && err != nil {
				rt.Fatalf("repeated %s on %v returned %v, want nil (history: %v)", how, n, err, m.history)
			}
			if !wasRequested && err != nil {
				acc := map[*fake]bool{}
				m.leaves(n, acc)
				anyFail := false
				for f := range acc {
					anyFail = anyFail || f.failClose
				}
				if !anyFail {
					rt.Fatalf("first %s on %v returned %v although no underlying close fails (history: %v)", how, n, err, m.history)
				}
			}
			if q, ok := n.closedQ(); ok && !q.Closed() {
				rt.Fatalf("%v.Closed() is false after %s (history: %v)", n, how, m.history)
			}
		}

		doWrap := func(rt *rapid.T, construct bool) {
			w := wrappers[rapid.IntRange(0, len(wrappers)-1).Draw(rt, "wrapper")]
			var a, b *node
			if w.needs == "pair" {
				rs, ws := m.candidates("reader", maxDepth), m.candidates("writer", maxDepth)
				if construct && len(rs) == 0 && nfakes < 6 {
					rs = []*node{newFake("fakeR")}
				}
				if construct && len(ws) == 0 && nfakes < 6 {
					ws = []*node{newFake("fakeW")}
				}
				if len(rs) == 0 || len(ws) == 0 {
					if construct {
						return
					}
					rt.Skip("no reader/writer to pair")
				}
				a = rs[rapid.IntRange(0, len(rs)-1).Draw(rt, "r")]
				b = ws[rapid.IntRange(0, len(ws)-1).Draw(rt, "w")]
			} else {
				cs := m.candidates(w.needs, maxDepth)
				if construct && len(cs) == 0 && nfakes < 6 {
					k := map[string]string{"conn": "fakeConn", "rwc": "fakeRWC", "reader": "fakeR", "writer": "fakeW"}[w.needs]
					cs = []*node{newFake(k)}
				}
				if len(cs) == 0 {
					if construct {
						return
					}
					rt.Skip("nothing to wrap")
				}
				a = cs[len(cs)-1-rapid.IntRange(0, len(cs)-1).Draw(rt, "innerFromEnd")]
			}
			obj := w.build(m, a, b)
			// "already safe" re-wrapping returns the very same wrapper: then it is the same node
			for _, n := range m.nodes {
				if n.obj == obj {
					m.history = append(m.history, fmt.Sprintf("wrap %s(%v) reused %v", w.name, a, n))
					vlib.Rec.Label("reuse-already-safe")
					return
				}
			}
			var n *node
			if b != nil {
				n = m.add(w.name, obj, a, b)
			} else {
				n = m.add(w.name, obj, a)
			}
			if n.depth > maxObservedDepth {
				maxObservedDepth = n.depth
			}
			m.history = append(m.history, fmt.Sprintf("wrap %v over %v %v", n, a, b))
			if q, ok := n.closedQ(); ok {
				// a fresh wrapper over things nobody asked to close answers false
				if !m.closeRequestedAbove(n) && !m.closeRequestedBelow(n) && !m.sharesLeafWithClosed(n) && q.Closed() {
					rt.Fatalf("fresh %v answers Closed()==true (history: %v)", n, m.history)
				}
			}
		}

		// construction phase: build a composition first so that most histories act on nested wrappers
		for i, nb := 0, rapid.IntRange(1, 8).Draw(rt, "nBuild"); i < nb; i++ {
			doWrap(rt, true)
		}

		rt.Repeat(map[string]func(*rapid.T){
			"newFake": func(rt *rapid.T) {
				if nfakes >= 4 {
					rt.Skip("enough fakes")
				}
				newFake(kinds[rapid.IntRange(0, 3).Draw(rt, "kind")])
			},
			"wrap": func(rt *rapid.T) { doWrap(rt, false) },
			"close": func(rt *rapid.T) {
				n := pick("node")
				if n.isFake() {
					rt.Skip("fakes are closed through their owner")
				}
				doClose(n, []string{"Close", "Close", "TryClose", "LogClose"}[rapid.IntRange(0, 3).Draw(rt, "how")])
			},
			"closed": func(rt *rapid.T) {
				n := pick("node")
				q, ok := n.closedQ()
				if !ok {
					rt.Skip("no Closed()")
				}
				got := q.Closed()
				m.history = append(m.history, fmt.Sprintf("Closed %v -> %v", n, got))
				if m.closeRequestedAbove(n) {
					if !got {
						rt.Fatalf("%v.Closed()==false after a close reached it (history: %v)", n, m.history)
					}
				} else if !m.closeRequestedBelow(n) && !m.sharesLeafWithClosed(n) {
					if got {
						rt.Fatalf("%v.Closed()==true before any close (history: %v)", n, m.history)
					}
				}
			},
			"read": func(rt *rapid.T) {
				n := pick("node")
				r, ok := n.obj.(io.Reader)
				if !ok {
					rt.Skip("not a reader")
				}
				buf := make([]byte, rapid.IntRange(0, 40).Draw(rt, "n"))
				k, err := r.Read(buf)
				m.history = append(m.history, fmt.Sprintf("Read %v -> %d,%v", n, k, err))
			},
			"endOfInput": func(rt *rapid.T) {
				// the resource under a drawn node has no more input: reads through any wrapper now report end-of-stream,
				// which says nothing about whether anything was closed
				n := pick("node")
				acc := map[*fake]bool{}
				m.leaves(n, acc)
				for f := range acc {
					f.exhausted = true
				}
				m.history = append(m.history, fmt.Sprintf("EndOfInput under %v", n))
			},
			"write": func(rt *rapid.T) {
				n := pick("node")
				w, ok := n.obj.(io.Writer)
				if !ok {
					rt.Skip("not a writer")
				}
				k, err := w.Write(make([]byte, rapid.IntRange(0, 40).Draw(rt, "n")))
				m.history = append(m.history, fmt.Sprintf("Write %v -> %d,%v", n, k, err))
			},
			"string": func(rt *rapid.T) {
				n := pick("node")
				s, ok := n.obj.(fmt.Stringer)
				if !ok {
					rt.Skip("not a Stringer")
				}
				done := make(chan string, 1)
				go func() { done <- s.String() }()
				select {
				case <-done:
				case <-time.After(5 * time.Second):
					rt.Fatalf("%v.String() does not terminate (history: %v)", n, m.history)
				}
			},
			"": func(rt *rapid.T) { m.invariant(rt) },
		})

		for _, n := range m.nodes {
			if n.leaf != nil && n.leaf.failClose && n.leaf.closeCount > 0 {
				failing = true
			}
		}
		nontrivial := closes > 0 && (maxObservedDepth >= 2 || failing || innerBeforeOuter)
		labels := []string{fmt.Sprintf("depth:%d", maxObservedDepth)}
		if failing {
			labels = append(labels, "failing-close")
		}
		if innerBeforeOuter {
			labels = append(labels, "inner-before-outer")
		}
		if closes > 1 {
			labels = append(labels, "repeated-close")
		}
		h := m.history
		vlib.Rec.Case(strings.Join(h, ";"), nontrivial, labels, func() interface{} { return h })
	})
}
