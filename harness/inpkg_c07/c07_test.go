//go:build verif

package dns

import (
	"fmt"
	"net"
	"strings"
	"sync"
	"sync/atomic"
	"testing"
	"time"

	"github.com/bokysan/socketace/v2/internal/streams/dns/util"
	"github.com/bokysan/socketace/v2/internal/util/enc"
	vlib "github.com/bokysan/socketace/v2/internal/zzverif/vcore"
	mdns "github.com/miekg/dns"
	"pgregory.net/rapid"
)

func TestMain(m *testing.M) { vlib.Main(m) }

// tunnel is a real ServerDnsListener and a real ClientDnsConnection joined by the simulated path. The client is set
// up with the exported negotiation steps but WITHOUT Handshake()'s background poll loop: every exchange is driven
// by the test goroutine, so every fate is a rapid draw at the moment of the exchange.
type tunnel struct {
	srv    *ServerDnsListener
	comm   *simClient
	client *ClientDnsConnection
	user   *userConnection

	upWritten, downWritten     []byte // accepted prefixes, in order
	upSubmitted, downSubmitted []byte
	upRead, downRead           []byte
	history                    []string
	faults                     int
	consecutiveLoss            int
	maxConsecutiveLoss         int
	srvWriteBusy               bool
	srvWriteDone               chan writeResult
	srvWriteData               []byte
}

type writeResult struct {
	n   int
	err error
}

func newTunnel(fragUp, fragDown uint32, seqUp, seqDown uint16) (*tunnel, error) {
	ss := &simServer{}
	srv := NewServerDnsListener("example.org", ss)
	comm := newSimClient(ss, &net.UDPAddr{IP: net.IPv4(10, 0, 0, 1), Port: 4000})
	client, err := NewClientDnsConnection("example.org", comm)
	if err != nil {
		return nil, err
	}
	qt := util.QueryTypeNull
	client.Serializer.Upstream.QueryType = &qt
	client.Serializer.Upstream.Encoder = enc.Base32Encoding
	client.Serializer.Downstream.Encoder = enc.Base32Encoding
	if err := client.VersionHandshake(); err != nil {
		return nil, fmt.Errorf("version handshake: %w", err)
	}
	c, err := srv.Accept()
	if err != nil {
		return nil, err
	}
	u := c.(*userConnection)
	// negotiate codecs and the downstream fragment size the way Handshake does
	client.Serializer.Upstream.Encoder = enc.Base128Encoding
	if err := client.SetEncodingUpstream(); err != nil {
		return nil, err
	}
	client.Serializer.Downstream.Encoder = enc.RawEncoding
	if err := client.SetEncodingDownstream(); err != nil {
		return nil, err
	}
	if err := client.SwitchFragmentSize(fragDown); err != nil {
		return nil, err
	}
	client.Serializer.Upstream.FragmentSize = fragUp
	// starting sequence numbers anywhere in the 16-bit range, consistently on both queue pairs
	client.out.NextSeqNo, u.in.NextSeqNo = seqUp, seqUp
	u.out.NextSeqNo, client.in.NextSeqNo = seqDown, seqDown
	return &tunnel{srv: srv, comm: comm, client: client, user: u, srvWriteDone: make(chan writeResult, 1)}, nil
}

func (t *tunnel) logf(f string, a ...interface{}) {
	if len(t.history) < 400 {
		t.history = append(t.history, fmt.Sprintf(f, a...))
	}
}

func (t *tunnel) noteFate(f fate) {
	if f != fateDelivered {
		t.faults++
	}
	if f == fateQueryLost || f == fateAnswerLost {
		t.consecutiveLoss++
		if t.consecutiveLoss > t.maxConsecutiveLoss {
			t.maxConsecutiveLoss = t.consecutiveLoss
		}
	} else {
		t.consecutiveLoss = 0
	}
}

// poll is exactly the body of the real poll loop.
func (t *tunnel) poll() error {
	return t.client.SendAndReceive(t.client.out.NextChunk())
}

func (t *tunnel) drainReads() {
	buf := make([]byte, 65536)
	for t.client.in.HasData() {
		n, _ := t.client.in.Read(buf)
		t.downRead = append(t.downRead, buf[:n]...)
	}
	for t.user.in.HasData() {
		n, _ := t.user.in.Read(buf)
		t.upRead = append(t.upRead, buf[:n]...)
	}
}

func (t *tunnel) collectServerWrite(block bool) {
	if !t.srvWriteBusy {
		return
	}
	if block {
		select {
		case r := <-t.srvWriteDone:
			t.finishServerWrite(r)
		case <-time.After(20 * time.Second):
		}
		return
	}
	select {
	case r := <-t.srvWriteDone:
		t.finishServerWrite(r)
	default:
	}
}

func (t *tunnel) finishServerWrite(r writeResult) {
	t.srvWriteBusy = false
	if r.n > len(t.srvWriteData) {
		r.n = len(t.srvWriteData)
	}
	t.downWritten = append(t.downWritten, t.srvWriteData[:r.n]...)
	t.logf("serverWrite done n=%d err=%v", r.n, r.err)
}

// invariant: what an end has read is a prefix of what its peer's writes were given, in order.
func (t *tunnel) invariant() string {
	t.drainReads()
	if !isPrefix(t.upRead, t.upSubmitted) {
		return fmt.Sprintf("server read %d bytes that are not a prefix of the %d bytes the client wrote (first difference at %d)", len(t.upRead), len(t.upSubmitted), vlib.FirstDiff(t.upRead, t.upSubmitted))
	}
	if !isPrefix(t.downRead, t.downSubmitted) {
		return fmt.Sprintf("client read %d bytes that are not a prefix of the %d bytes the server wrote (first difference at %d)", len(t.downRead), len(t.downSubmitted), vlib.FirstDiff(t.downRead, t.downSubmitted))
	}
	return ""
}

func isPrefix(a, b []byte) bool {
	if len(a) > len(b) {
		return false
	}
	for i := range a {
		if a[i] != b[i] {
			return false
		}
	}
	return true
}

func outLen(q *util.OutQueue) int {
	// in-package: peek at the number of unacknowledged chunks via NextChunk (nil = empty)
	if q.NextChunk() == nil {
		return 0
	}
	return 1
}

type runCfg struct {
	FragUp, FragDown uint32
	SeqUp, SeqDown   uint16
}

func TestLossyPathExactlyOnce(t *testing.T) {
	rapid.Check(t, func(rt *rapid.T) {
		cfg := runCfg{}
		cfg.FragUp = uint32([]int{1, 2, 3, 7, 16, 50, 110}[rapid.IntRange(0, 6).Draw(rt, "fragUp")])
		cfg.FragDown = uint32([]int{1, 2, 3, 7, 16, 100, 1200}[rapid.IntRange(0, 6).Draw(rt, "fragDown")])
		switch rapid.IntRange(0, 2).Draw(rt, "seqKind") {
		case 0:
			cfg.SeqUp, cfg.SeqDown = 0, 0
		case 1:
			cfg.SeqUp = uint16(65535 - rapid.IntRange(0, 200).Draw(rt, "seqUpNearWrap"))
			cfg.SeqDown = uint16(65535 - rapid.IntRange(0, 200).Draw(rt, "seqDownNearWrap"))
		default:
			cfg.SeqUp = uint16(rapid.IntRange(0, 65535).Draw(rt, "seqUp"))
			cfg.SeqDown = uint16(rapid.IntRange(0, 65535).Draw(rt, "seqDown"))
		}
		tn, err := newTunnel(cfg.FragUp, cfg.FragDown, cfg.SeqUp, cfg.SeqDown)
		if err != nil {
			rt.Fatalf("tunnel setup: %v", err)
		}
		defer tn.srv.Close()
		lossRate := rapid.IntRange(0, 40).Draw(rt, "faultPercent")
		isolatedOnly := rapid.Bool().Draw(rt, "isolatedFaultsOnly")
		lastWasLoss := false
		tn.comm.replayAge = func(n int) int { return rapid.IntRange(1, n).Draw(rt, "replayAge") }
		tn.comm.nextFate = func(q *mdns.Msg) fate {
			f := fateDelivered
			if rapid.IntRange(0, 99).Draw(rt, "fateRoll") < lossRate {
				f = fate(rapid.IntRange(1, 4).Draw(rt, "fate"))
			}
			if isolatedOnly && lastWasLoss && (f == fateQueryLost || f == fateAnswerLost) {
				f = fateDelivered // no two consecutive lost exchanges in an "isolated losses" history
			}
			lastWasLoss = f == fateQueryLost || f == fateAnswerLost
			tn.noteFate(f)
			if f != fateDelivered {
				tn.logf("  fate %v", f)
			}
			return f
		}
		multiFragmentWrite := false
		fail := func(msg string) {
			vlib.Rec.Violation(map[string]interface{}{"property": "C07", "config": cfg, "history": tn.history, "problem": msg})
			rt.Fatalf("C07 %+v: %s\nhistory: %s", cfg, msg, strings.Join(tn.history, "; "))
		}
		emptyClientOut := func() bool {
			for i := 0; i < 60 && tn.client.out.NextChunk() != nil; i++ {
				tn.poll()
			}
			return tn.client.out.NextChunk() == nil
		}
		drawSize := func(rt *rapid.T, frag uint32, label string) int {
			f := int(frag)
			switch rapid.IntRange(0, 4).Draw(rt, label+"Rel") {
			case 0:
				return rapid.IntRange(1, f).Draw(rt, label+"Below")
			case 1:
				return f
			case 2:
				return f + rapid.IntRange(1, f+3).Draw(rt, label+"Above")
			default:
				return rapid.IntRange(1, f*rapid.IntRange(2, 12).Draw(rt, label+"Mult")+3).Draw(rt, label+"Many")
			}
		}
		rt.Repeat(map[string]func(*rapid.T){
			"clientWrite": func(rt *rapid.T) {
				if !emptyClientOut() {
					rt.Skip("previous chunks still unacknowledged")
				}
				n := drawSize(rt, cfg.FragUp, "cw")
				if n > int(cfg.FragUp) {
					multiFragmentWrite = true
				}
				data := vlib.PRF(1, len(tn.upSubmitted), n)
				tn.upSubmitted = append(tn.upSubmitted, data...)
				faultsBefore, maxConsBefore := tn.faults, tn.maxConsecutiveLoss
				tn.consecutiveLoss = 0
				tn.maxConsecutiveLoss = 0
				done := make(chan writeResult, 1)
				go func() { k, err := tn.client.Write(data); done <- writeResult{k, err} }()
				var r writeResult
				select {
				case r = <-done:
				case <-time.After(20 * time.Second):
					fail(fmt.Sprintf("client Write of %d bytes does not terminate", n))
				}
				tn.logf("clientWrite n=%d -> %d,%v", n, r.n, r.err)
				if r.n < 0 || r.n > n {
					fail(fmt.Sprintf("Write(%d bytes) returned n=%d", n, r.n))
				}
				// only the accepted prefix counts as written; the model drops the rest of this write
				tn.upSubmitted = tn.upSubmitted[:len(tn.upSubmitted)-n+r.n]
				tn.upWritten = append(tn.upWritten, data[:r.n]...)
				if r.err == nil && r.n != n {
					fail(fmt.Sprintf("Write(%d bytes) returned n=%d without an error", n, r.n))
				}
				if r.err != nil && tn.maxConsecutiveLoss <= 1 && tn.faults > faultsBefore {
					sig := "isolated-loss-surfaces-as-write-error"
					msg := fmt.Sprintf("isolated losses (never two lost exchanges in a row) surfaced as a failed Write: n=%d of %d, err=%v", r.n, n, r.err)
					if vlib.IsKnown("C07", sig) {
						vlib.Rec.Known(sig, map[string]interface{}{"problem": msg})
					} else {
						fail(msg)
					}
				}
				if tn.maxConsecutiveLoss < maxConsBefore {
					tn.maxConsecutiveLoss = maxConsBefore
				}
			},
			"serverWrite": func(rt *rapid.T) {
				tn.collectServerWrite(false)
				if tn.srvWriteBusy {
					rt.Skip("previous server write still waiting for acknowledgements")
				}
				n := drawSize(rt, cfg.FragDown, "sw")
				if n > int(cfg.FragDown) {
					multiFragmentWrite = true
				}
				data := vlib.PRF(2, len(tn.downSubmitted), n)
				tn.downSubmitted = append(tn.downSubmitted, data...)
				tn.srvWriteData = data
				tn.srvWriteBusy = true
				go func() { k, err := tn.user.Write(data); tn.srvWriteDone <- writeResult{k, err} }()
				// wait until its chunks are queued
				for i := 0; i < 2000 && tn.user.out.NextChunk() == nil; i++ {
					time.Sleep(50 * time.Microsecond)
				}
				tn.logf("serverWrite n=%d queued", n)
			},
			"poll": func(rt *rapid.T) {
				k := rapid.IntRange(1, 6).Draw(rt, "polls")
				for i := 0; i < k; i++ {
					tn.poll()
				}
				tn.logf("poll x%d", k)
			},
			"read": func(rt *rapid.T) { tn.drainReads() },
			"": func(rt *rapid.T) {
				tn.collectServerWrite(false)
				if msg := tn.invariant(); msg != "" {
					fail(msg)
				}
			},
		})
		// loss-free tail: "once the path stops losing everything accepted arrives"
		tn.comm.nextFate = nil
		for i := 0; i < 400; i++ {
			tn.poll()
			tn.collectServerWrite(false)
			if !tn.srvWriteBusy && tn.client.out.NextChunk() == nil && tn.user.out.NextChunk() == nil && i > 3 {
				break
			}
		}
		tn.collectServerWrite(true)
		if tn.srvWriteBusy {
			fail("server Write does not terminate although the path stopped losing")
		}
		for i := 0; i < 4; i++ {
			tn.poll()
		}
		if msg := tn.invariant(); msg != "" {
			fail(msg)
		}
		if len(tn.upRead) != len(tn.upWritten) || vlib.FirstDiff(tn.upRead, tn.upWritten) != -1 {
			fail(fmt.Sprintf("after the loss-free tail the server has read %d bytes, the client's writes accepted %d (first difference at %d)", len(tn.upRead), len(tn.upWritten), vlib.FirstDiff(tn.upRead, tn.upWritten)))
		}
		if len(tn.downRead) != len(tn.downWritten) || vlib.FirstDiff(tn.downRead, tn.downWritten) != -1 {
			fail(fmt.Sprintf("after the loss-free tail the client has read %d bytes, the server's writes accepted %d (first difference at %d)", len(tn.downRead), len(tn.downWritten), vlib.FirstDiff(tn.downRead, tn.downWritten)))
		}
		nontrivial := tn.faults > 0 && multiFragmentWrite
		labels := []string{fmt.Sprintf("fragUp:%d", cfg.FragUp), fmt.Sprintf("fragDown:%d", cfg.FragDown)}
		if tn.faults > 0 {
			labels = append(labels, "faults")
		}
		if isolatedOnly {
			labels = append(labels, "isolated-only")
		}
		if cfg.SeqUp > 65000 || cfg.SeqDown > 65000 {
			labels = append(labels, "near-wrap-start")
		}
		h := tn.history
		vlib.Rec.Case(fmt.Sprintf("%+v|%s", cfg, strings.Join(h, ";")), nontrivial, labels, func() interface{} {
			return map[string]interface{}{"config": cfg, "faults": tn.faults, "up_bytes": len(tn.upWritten), "down_bytes": len(tn.downWritten), "history_head": head(h, 30)}
		})
	})
}

func head(h []string, n int) []string {
	if len(h) > n {
		return h[:n]
	}
	return h
}

// TestSequenceWrap pushes more than 65536 packets in each direction (fragment size 1-2) with sparse faults.
func TestSequenceWrap(t *testing.T) {
	// a Write that never returns (an acknowledgement that is lost for good, a packet parked for ever) must fail this
	// test, not hang it: the run happens in its own goroutine under a bound that is generous for 70000 packets each way
	var progress int64
	done := make(chan struct{})
	go func() {
		defer close(done)
		sequenceWrap(t, &progress)
	}()
	select {
	case <-done:
	case <-time.After(6 * time.Minute):
		msg := fmt.Sprintf("the transfer across the sequence wrap stalled: a Write or the exchange loop has not returned after 6 minutes (%d bytes accepted from the client so far)", atomic.LoadInt64(&progress))
		vlib.Rec.Violation(map[string]interface{}{"property": "C07", "test": "sequence-wrap", "problem": msg})
		t.Fatalf("C07 sequence wrap: %s", msg)
	}
}

func sequenceWrap(t *testing.T, progress *int64) {
	seed := vlib.Seed()
	rnd := seed*2862933555777941757 + 3037000493
	next := func(n int) int {
		rnd = rnd*6364136223846793005 + 1442695040888963407
		return int((rnd >> 33) % uint64(n))
	}
	frag := uint32(1 + next(2))
	tn, err := newTunnel(frag, frag, uint16(next(65536)), uint16(next(65536)))
	if err != nil {
		t.Fatalf("tunnel setup: %v", err)
	}
	defer tn.srv.Close()
	lastLoss := false
	tn.comm.replayAge = func(n int) int { return 1 + next(n) }
	tn.comm.nextFate = func(q *mdns.Msg) fate {
		f := fateDelivered
		if next(100) < 3 {
			f = fate(1 + next(4))
		}
		if lastLoss && (f == fateQueryLost || f == fateAnswerLost) {
			f = fateDelivered
		}
		lastLoss = f == fateQueryLost || f == fateAnswerLost
		tn.noteFate(f)
		return f
	}
	packets := 66000 + next(3000)
	total := packets * int(frag)
	fail := func(msg string) {
		sigs := map[string]string{}
		_ = sigs
		vlib.Rec.Violation(map[string]interface{}{"property": "C07", "test": "sequence-wrap", "fragment": frag, "packets": packets, "problem": msg})
		t.Fatalf("C07 sequence wrap (fragment %d, %d packets per direction): %s", frag, packets, msg)
	}
	// server side writer runs concurrently (its Write blocks for acknowledgements)
	down := vlib.PRF(4, 0, total)
	srvDone := make(chan writeResult, 1)
	go func() {
		written := 0
		var lastErr error
		for written < len(down) {
			k := 4000
			if written+k > len(down) {
				k = len(down) - written
			}
			n, err := tn.user.Write(down[written : written+k])
			written += n
			if err != nil {
				lastErr = err
				break
			}
		}
		srvDone <- writeResult{written, lastErr}
	}()
	up := vlib.PRF(3, 0, total)
	accepted := 0
	writeErrs := 0
	deadline := time.Now().Add(4 * time.Minute)
	for accepted < len(up) {
		if time.Now().After(deadline) {
			fail(fmt.Sprintf("no completion within 4 minutes: %d of %d bytes accepted", accepted, len(up)))
		}
		for i := 0; i < 50 && tn.client.out.NextChunk() != nil; i++ {
			tn.poll()
		}
		k := 1 + next(40)
		if accepted+k > len(up) {
			k = len(up) - accepted
		}
		n, err := tn.client.Write(up[accepted : accepted+k])
		if err != nil {
			writeErrs++
			if !vlib.IsKnown("C07", "isolated-loss-surfaces-as-write-error") {
				fail(fmt.Sprintf("client Write failed under isolated sparse losses: n=%d err=%v", n, err))
			}
			vlib.Rec.Known("isolated-loss-surfaces-as-write-error", map[string]interface{}{"problem": err.Error()})
			// the bytes of the chunks already queued are delivered later; re-submit the rest
		}
		accepted += n
		atomic.StoreInt64(progress, int64(accepted))
		if accepted%4096 < 40 {
			tn.drainReads()
		}
	}
	tn.comm.nextFate = nil
	var sr writeResult
	for done := false; !done; {
		tn.poll()
		tn.drainReads()
		select {
		case sr = <-srvDone:
			done = true
		default:
			if time.Now().After(deadline) {
				fail(fmt.Sprintf("server writer did not finish: client has read %d of %d bytes", len(tn.downRead), len(down)))
			}
		}
	}
	for i := 0; i < 300; i++ {
		tn.poll()
	}
	tn.drainReads()
	vlib.Rec.Case(fmt.Sprintf("wrap|%d|%d|%d", frag, packets, seed), true, []string{"sequence-wrap"}, func() interface{} {
		return map[string]interface{}{"test": "sequence-wrap", "fragment": frag, "packets_per_direction": packets, "exchanges": tn.comm.Exchanges, "faults": tn.faults}
	})
	vlib.Rec.Extra("wrap_exchanges", tn.comm.Exchanges)
	if sr.err != nil || sr.n != len(down) {
		fail(fmt.Sprintf("server Write: n=%d of %d err=%v", sr.n, len(down), sr.err))
	}
	if d := vlib.FirstDiff(tn.upRead, up[:accepted]); d != -1 {
		fail(fmt.Sprintf("server read %d bytes, client writes accepted %d; first difference at byte %d (packet %d)", len(tn.upRead), accepted, d, d/int(frag)))
	}
	if d := vlib.FirstDiff(tn.downRead, down); d != -1 {
		fail(fmt.Sprintf("client read %d bytes, server writes accepted %d; first difference at byte %d (packet %d)", len(tn.downRead), len(down), d, d/int(frag)))
	}
}

// ---- layer B: the full stack with Handshake() and its background poll goroutine --------------------------------------

// TestPollerLossyPath runs the real Handshake() (which starts the client's own poll loop) over the simulated path and
// then applies a pre-drawn list of fates, consumed in exchange order under a mutex, while data moves both ways.
func TestPollerLossyPath(t *testing.T) {
	rapid.Check(t, func(rt *rapid.T) {
		nf := rapid.IntRange(20, 400).Draw(rt, "fates")
		isolated := rapid.Bool().Draw(rt, "isolatedOnly")
		percent := rapid.IntRange(1, 35).Draw(rt, "faultPercent")
		fates := make([]fate, nf)
		faults := 0
		for i := range fates {
			if rapid.IntRange(0, 99).Draw(rt, "roll") < percent {
				fates[i] = fate(rapid.IntRange(1, 4).Draw(rt, "fate"))
			}
			lossy := func(f fate) bool { return f == fateQueryLost || f == fateAnswerLost }
			if isolated && i > 0 && lossy(fates[i]) && lossy(fates[i-1]) {
				fates[i] = fateDelivered
			}
			if fates[i] != fateDelivered {
				faults++
			}
		}
		sizes := []int{rapid.IntRange(1, 3000).Draw(rt, "size1"), rapid.IntRange(1, 9000).Draw(rt, "size2")}

		ss := &simServer{}
		srv := NewServerDnsListener("example.org", ss)
		defer srv.Close()
		comm := newSimClient(ss, &net.UDPAddr{IP: net.IPv4(10, 0, 0, 7), Port: 4007})
		client, err := NewClientDnsConnection("example.org", comm)
		if err != nil {
			rt.Fatalf("client: %v", err)
		}
		if err := client.Handshake(); err != nil {
			rt.Fatalf("handshake over a transparent path failed: %v", err)
		}
		defer func() {
			comm.nextFate = nil
			done := make(chan struct{})
			go func() { defer close(done); client.Close() }()
			select {
			case <-done:
			case <-time.After(5 * time.Second):
				comm.closed = true
			}
		}()
		c, err := srv.Accept()
		if err != nil {
			rt.Fatalf("accept: %v", err)
		}
		user := c.(*userConnection)
		var mu sync.Mutex
		idx := 0
		comm.replayAge = func(n int) int { return 1 + (idx*7)%n }
		comm.nextFate = func(q *mdns.Msg) fate {
			mu.Lock()
			defer mu.Unlock()
			if idx >= len(fates) {
				return fateDelivered
			}
			f := fates[idx]
			idx++
			return f
		}
		desc := map[string]interface{}{"fates": nf, "faults": faults, "isolated_only": isolated, "sizes": sizes}
		fail := func(msg string) {
			vlib.Rec.Violation(map[string]interface{}{"property": "C07", "layer": "B", "case": desc, "problem": msg})
			rt.Fatalf("C07 layer B %v: %s", desc, msg)
		}
		for i, n := range sizes {
			up := vlib.PRF(uint64(50+i), 0, n)
			down := vlib.PRF(uint64(60+i), 0, n)
			msg := exchange(client, user, up, down, 40*time.Second)
			if msg != "" {
				if isolated || strings.Contains(msg, "different bytes") || strings.Contains(msg, "not complete") {
					// isolated losses must be absorbed; corruption or a hang is never acceptable
					fail(fmt.Sprintf("transfer %d (%d bytes each way): %s", i, n, msg))
				}
				// burst losses may legitimately fail a write; the streams must stay prefixes (checked by exchange's
				// content comparison on what did arrive) - nothing more to judge in this history
				break
			}
		}
		vlib.Rec.Case(fmt.Sprintf("layerB|%v|%v", fates, sizes), faults > 0, []string{"layer-b", fmt.Sprintf("isolated:%v", isolated)}, func() interface{} { return desc })
	})
}

// TestBlackoutThenHealed: "once the path stops losing everything accepted arrives". After the real Handshake() (with its
// poll loop) some writes go through, then the path loses a drawn number of consecutive exchanges (enough, in part of the
// cases, for a client Write to give up and report an error together with the number of bytes it accepted), then the path
// heals. Everything the writes reported as accepted - including the count returned with an error - must reach the server,
// nothing else, and a later write must terminate and arrive as well.
func TestBlackoutThenHealed(t *testing.T) {
	budget := int32(vlib.Pick(60, 600))
	var ran int32
	rapid.Check(t, func(rt *rapid.T) {
		if atomic.AddInt32(&ran, 1) > budget {
			return
		}
		pre := rapid.IntRange(0, 4).Draw(rt, "writesBefore")
		burst := rapid.IntRange(1, 30).Draw(rt, "lostExchanges")
		lossKind := rapid.IntRange(0, 2).Draw(rt, "lossKind") // 0 query lost, 1 answer lost, 2 alternating
		sizes := make([]int, pre+2)
		for i := range sizes {
			sizes[i] = rapid.IntRange(1, 700).Draw(rt, "size")
		}
		ss := &simServer{}
		srv := NewServerDnsListener("example.org", ss)
		defer srv.Close()
		comm := newSimClient(ss, &net.UDPAddr{IP: net.IPv4(10, 0, 0, 9), Port: 4009})
		client, err := NewClientDnsConnection("example.org", comm)
		if err != nil {
			rt.Fatalf("client: %v", err)
		}
		if err := client.Handshake(); err != nil {
			rt.Fatalf("handshake over a transparent path failed: %v", err)
		}
		defer func() {
			comm.nextFate = nil
			done := make(chan struct{})
			go func() { defer close(done); client.Close() }()
			select {
			case <-done:
			case <-time.After(5 * time.Second):
				comm.closed = true
			}
		}()
		c, err := srv.Accept()
		if err != nil {
			rt.Fatalf("accept: %v", err)
		}
		user := c.(*userConnection)
		var mu sync.Mutex
		var got []byte
		go func() {
			buf := make([]byte, 16384)
			for {
				n, err := user.Read(buf)
				mu.Lock()
				got = append(got, buf[:n]...)
				mu.Unlock()
				if err != nil {
					return
				}
			}
		}()
		var lossLeft int32
		var lost int32
		comm.nextFate = func(q *mdns.Msg) fate {
			if atomic.AddInt32(&lossLeft, -1) >= 0 {
				k := atomic.AddInt32(&lost, 1)
				if lossKind == 1 || (lossKind == 2 && k%2 == 0) {
					return fateAnswerLost
				}
				return fateQueryLost
			}
			return fateDelivered
		}
		desc := map[string]interface{}{"writes_before": pre, "lost_exchanges": burst, "loss_kind": lossKind, "sizes": sizes}
		fail := func(msg string) {
			vlib.Rec.Violation(map[string]interface{}{"property": "C07", "layer": "B-blackout", "case": desc, "problem": msg})
			rt.Fatalf("C07 blackout %v: %s", desc, msg)
		}
		var written []byte // concatenation of what the writes reported as accepted
		write := func(i int, bound time.Duration) (int, error, bool) {
			data := vlib.PRF(uint64(900+i), 0, sizes[i])
			type res struct {
				n   int
				err error
			}
			rc := make(chan res, 1)
			go func() { n, err := client.Write(data); rc <- res{n, err} }()
			select {
			case r := <-rc:
				if r.n < 0 || r.n > len(data) {
					fail(fmt.Sprintf("write %d of %d bytes reported %d bytes accepted", i, len(data), r.n))
				}
				written = append(written, data[:r.n]...)
				return r.n, r.err, true
			case <-time.After(bound):
				return 0, nil, false
			}
		}
		for i := 0; i < pre; i++ {
			if _, err, ok := write(i, 15*time.Second); !ok || err != nil {
				fail(fmt.Sprintf("write %d on a transparent path: terminated=%v err=%v", i, ok, err))
			}
		}
		atomic.StoreInt32(&lossLeft, int32(burst))
		n, werr, ok := write(pre, 30*time.Second)
		atomic.StoreInt32(&lossLeft, 0) // the path heals
		if !ok {
			fail(fmt.Sprintf("the write during the blackout (%d lost exchanges) did not terminate within 30s", burst))
		}
		desc["blackout_write_accepted"] = n
		desc["blackout_write_error"] = fmt.Sprint(werr)
		if burst <= 1 && werr != nil {
			fail(fmt.Sprintf("a single lost exchange surfaced as a write failure: %v", werr))
		}
		waitFor := func(want int, bound time.Duration) int {
			deadline := time.Now().Add(bound)
			for {
				mu.Lock()
				l := len(got)
				mu.Unlock()
				if l >= want || time.Now().After(deadline) {
					return l
				}
				time.Sleep(5 * time.Millisecond)
			}
		}
		if l := waitFor(len(written), 15*time.Second); l < len(written) {
			fail(fmt.Sprintf("the path healed, the writes had accepted %d bytes (the one during the blackout: %d, error %v) but only %d arrived within 15s", len(written), n, werr, l))
		}
		// a later write terminates and arrives too
		if _, err, ok := write(pre+1, 20*time.Second); !ok {
			fail("a write after the path healed did not terminate within 20s")
		} else if err != nil {
			fail(fmt.Sprintf("a write after the path healed failed: %v", err))
		}
		waitFor(len(written), 15*time.Second)
		time.Sleep(20 * time.Millisecond)
		mu.Lock()
		g := append([]byte(nil), got...)
		mu.Unlock()
		if d := vlib.FirstDiff(g, written); d != -1 {
			fail(fmt.Sprintf("server read %d bytes, writes accepted %d; first difference at byte %d", len(g), len(written), d))
		}
		labels := []string{"layer-b-blackout", fmt.Sprintf("write-failed:%v", werr != nil)}
		vlib.Rec.Case(fmt.Sprintf("blackout|%v", desc), true, labels, func() interface{} { return desc })
	})
}
