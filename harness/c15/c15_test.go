//go:build verif

package c15

import (
	"crypto/tls"
	"fmt"
	"io"
	"net"
	"os"
	"strings"
	"sync"
	"sync/atomic"
	"testing"
	"time"

	sdns "github.com/bokysan/socketace/v2/internal/streams/dns"
	"github.com/bokysan/socketace/v2/internal/version"
	"github.com/bokysan/socketace/v2/internal/zzverif/vlib"
	"github.com/gorilla/websocket"
	mdns "github.com/miekg/dns"
	"github.com/xtaci/kcp-go/v5"
	"pgregory.net/rapid"
)

func TestMain(m *testing.M) { vlib.Main(m) }

var kinds = []string{vlib.CarTCP, vlib.CarTCPTLS, vlib.CarUnix, vlib.CarHTTP, vlib.CarHTTPS, vlib.CarUDP, vlib.CarDNS}

// stall points
const (
	stConnect  = "after-connect"
	stPartial  = "inside-first-request"
	stBetween  = "between-requests"
	stTLSHello = "inside-tls-hello"
	stUpgraded = "after-upgrade"
	stGarbage  = "garbage"
	// stMalformed: a complete but malformed request (or a good announce followed by a malformed upgrade request), then
	// silence; a peer's bad input may cost that peer its connection, never the other peers theirs
	stMalformed = "malformed-request"
	// stStartTLSHello (servers offering StartTLS only): both requests done, StartTLS asked for and granted with 101,
	// then not a byte of the TLS hello
	stStartTLSHello = "inside-starttls-hello"
	stSlow          = "slow-trickle"
)

type caseDesc struct {
	Kind     string `json:"kind"`
	StartTLS bool   `json:"server_offers_starttls"`
	Stall    string `json:"stall"`
	Cut      int    `json:"cut"`
	Stalled  int    `json:"stalled_peers"`
	Good     int    `json:"good_clients"`
	// DNSSilent (dns endpoint only): at the stall point the peer stops sending DNS queries altogether - no polls, no
	// acknowledgements - so whatever the server has to say to it stays unacknowledged for ever. Without it a stalled
	// DNS peer is silent on the tunnelled byte stream only and keeps polling.
	DNSSilent bool `json:"dns_peer_stops_polling,omitempty"`
	// AfterAnnounce (malformed-request only): a well-formed announce is exchanged first
	AfterAnnounce bool `json:"malformed_request_follows_a_good_announce,omitempty"`
}

// mutedComm is a DNS communicator that can be switched to sending nothing at all.
type mutedComm struct {
	sdns.ClientCommunicator
	muted int32
	stop  <-chan struct{}
}

func (m *mutedComm) SendAndReceive(q *mdns.Msg, timeout *time.Duration) (*mdns.Msg, time.Duration, error) {
	if atomic.LoadInt32(&m.muted) != 0 {
		<-m.stop
		return nil, 0, os.ErrDeadlineExceeded
	}
	return m.ClientCommunicator.SendAndReceive(q, timeout)
}

func announce() string {
	return "X-SOCKETACE / HTTP/1.1\r\nAccepts-Protocol-Version: " + version.ProtocolVersion + "\r\nUser-Agent: stalled/1.0\r\n\r\n"
}

func upgradeReq() string {
	return "GET / HTTP/1.1\r\nUser-Agent: stalled/1.0\r\nUpgrade: socketace/" + version.ProtocolVersion + "\r\nConnection: upgrade\r\n\r\n"
}

// clientHello captures the bytes a TLS client sends first.
func clientHello() []byte {
	a, b := net.Pipe()
	go func() {
		c := tls.Client(a, &tls.Config{InsecureSkipVerify: true, ServerName: "localhost"})
		c.Handshake()
	}()
	buf := make([]byte, 4096)
	b.SetReadDeadline(time.Now().Add(2 * time.Second))
	n, _ := b.Read(buf)
	b.Close()
	a.Close()
	return buf[:n]
}

func readResponse(c io.Reader) {
	// read until the blank line that ends a response header
	buf := make([]byte, 1)
	var last4 [4]byte
	for {
		if _, err := c.Read(buf); err != nil {
			return
		}
		last4 = [4]byte{last4[1], last4[2], last4[3], buf[0]}
		if string(last4[:]) == "\r\n\r\n" {
			return
		}
	}
}

// script runs the misbehaviour on an established byte stream (already past any carrier-level handshake).
func script(c io.ReadWriter, d caseDesc, stop <-chan struct{}) {
	scriptSteps(c, d, stop, false)
	<-stop
}

// scriptSteps: with skipLastRead the peer does not fetch the server's answer to the last thing it sent.
func scriptSteps(c io.ReadWriter, d caseDesc, stop <-chan struct{}, skipLastRead bool) {
	switch d.Stall {
	case stConnect:
	case stPartial:
		a := announce()
		k := d.Cut % len(a)
		c.Write([]byte(a[:k]))
	case stBetween:
		c.Write([]byte(announce()))
		if !skipLastRead {
			readResponse(c)
		}
	case stUpgraded:
		c.Write([]byte(announce()))
		readResponse(c)
		c.Write([]byte(upgradeReq()))
		if !skipLastRead {
			readResponse(c)
		}
	case stGarbage:
		c.Write(vlib.PRF(uint64(d.Cut), 0, 200+d.Cut%800))
	case stStartTLSHello:
		c.Write([]byte(announce()))
		readResponse(c)
		c.Write([]byte(strings.Replace(upgradeReq(), "Connection: upgrade\r\n", "Connection: upgrade\r\nSecurity: StartTLS\r\n", 1)))
		if !skipLastRead {
			readResponse(c)
		}
	case stMalformed:
		bad := malformedRequests[d.Cut%len(malformedRequests)]
		if d.AfterAnnounce {
			c.Write([]byte(announce()))
			readResponse(c)
		}
		c.Write([]byte(bad))
	case stSlow:
		a := announce()
		for i := 0; i < len(a); i++ {
			select {
			case <-stop:
				return
			case <-time.After(400 * time.Millisecond):
			}
			c.Write([]byte(a[i : i+1]))
		}
	}
}

var malformedRequests = []string{
	"GET /\r\n\r\n", "GET\r\n\r\n", " \r\n\r\n", "  \r\n\r\n", "X-SOCKETACE /\r\n\r\n", "X-SOCKETACE  HTTP/1.1\r\n\r\n", "\r\n\r\n",
	"X-SOCKETACE / HTTP/1.1\r\nNoColonHeader\r\n\r\n", "X-SOCKETACE / HTTP/1.1\r\n: no name\r\n\r\n", "X-SOCKETACE / HTTP/1.1 \r\n\r\n",
	"GET / HTTP/1.1\r\nUpgrade: socketace\r\nConnection: upgrade\r\n\r\n", "GET / HTTP/1.1\r\nUpgrade: /\r\nConnection: upgrade\r\n\r\n",
	"X-SOCKETACE / HTTP/1.1\r\nAccepts-Protocol-Version:\r\n\r\n", "X-SOCKETACE / HTTP/1.1\r\nAccepts-Protocol-Version: ,\r\n\r\n",
}

type wsRW struct{ c *websocket.Conn }

func (w wsRW) Write(p []byte) (int, error) {
	return len(p), w.c.WriteMessage(websocket.BinaryMessage, p)
}
func (w wsRW) Read(p []byte) (int, error) {
	_, m, err := w.c.ReadMessage()
	if err != nil {
		return 0, err
	}
	return copy(p, m), nil
}

func closeOnStop(stop <-chan struct{}, c io.Closer) {
	go func() { <-stop; c.Close() }()
}

// startStalled connects one misbehaving peer; returns a closer.
func startStalled(p *vlib.Pair, d caseDesc, stop <-chan struct{}, ready chan<- struct{}) {
	defer func() { recover() }()
	signal := func() {
		select {
		case ready <- struct{}{}:
		default:
		}
	}
	switch d.Kind {
	case vlib.CarTCP, vlib.CarTCPTLS, vlib.CarUnix:
		var c net.Conn
		var err error
		if d.Kind == vlib.CarUnix {
			c, err = net.Dial("unix", p.UnixPath())
		} else {
			c, err = net.Dial("tcp", vlib.HostPort(p.SrvPort))
		}
		if err != nil {
			signal()
			return
		}
		defer c.Close()
		closeOnStop(stop, c)
		if d.Kind == vlib.CarTCPTLS {
			if d.Stall == stTLSHello {
				h := clientHello()
				if len(h) > 1 {
					c.Write(h[:1+d.Cut%(len(h)-1)])
				}
				signal()
				<-stop
				return
			}
			if d.Stall == stConnect || d.Stall == stGarbage {
				if d.Stall == stGarbage {
					c.Write(vlib.PRF(uint64(d.Cut), 0, 300))
				}
				signal()
				<-stop
				return
			}
			tc := tls.Client(c, &tls.Config{InsecureSkipVerify: true})
			c.SetDeadline(time.Now().Add(5 * time.Second))
			if err := tc.Handshake(); err != nil {
				signal()
				<-stop
				return
			}
			c.SetDeadline(time.Time{})
			signal()
			script(tc, d, stop)
			return
		}
		signal()
		script(c, d, stop)
	case vlib.CarHTTP, vlib.CarHTTPS:
		if d.Stall == stConnect || d.Stall == stTLSHello || d.Stall == stGarbage {
			c, err := net.Dial("tcp", vlib.HostPort(p.SrvPort))
			if err != nil {
				signal()
				return
			}
			defer c.Close()
			switch d.Stall {
			case stTLSHello:
				h := clientHello()
				c.Write(h[:1+d.Cut%(len(h)-1)])
			case stGarbage:
				c.Write([]byte("GET /ws/all HTTP/1.1\r\nHost: x\r\nX-Junk: "))
			}
			signal()
			<-stop
			return
		}
		scheme := "ws"
		if d.Kind == vlib.CarHTTPS {
			scheme = "wss"
		}
		dialer := &websocket.Dialer{HandshakeTimeout: 5 * time.Second, TLSClientConfig: &tls.Config{InsecureSkipVerify: true}}
		wc, _, err := dialer.Dial(fmt.Sprintf("%s://127.0.0.1:%d/ws/all", scheme, p.SrvPort), nil)
		if err != nil {
			signal()
			return
		}
		defer wc.Close()
		closeOnStop(stop, wc)
		signal()
		script(wsRW{wc}, d, stop)
	case vlib.CarUDP:
		ra, _ := net.ResolveUDPAddr("udp", vlib.HostPort(p.SrvPort))
		pc, err := net.ListenPacket("udp", "127.0.0.1:0")
		if err != nil {
			signal()
			return
		}
		kc, err := kcp.NewConn2(ra, nil, 10, 3, pc)
		if err != nil {
			pc.Close()
			signal()
			return
		}
		defer kc.Close()
		closeOnStop(stop, kc)
		if d.Stall == stConnect {
			// a KCP session exists for the server only once a datagram arrived: send a single byte
			kc.Write([]byte("X"))
			signal()
			<-stop
			return
		}
		signal()
		script(kc, d, stop)
	case vlib.CarDNS:
		comm, err := sdns.NewNetConnectionClientCommunicator(&sdns.ClientConfig{Servers: sdns.AddressList{sdns.MustResolveNetworkAddress("udp", vlib.HostPort(p.SrvPort), "53")}})
		if err != nil {
			signal()
			return
		}
		mc := &mutedComm{ClientCommunicator: comm, stop: stop}
		dc, err := sdns.NewClientDnsConnection("example.org", mc)
		if err != nil {
			signal()
			return
		}
		if err := dc.Handshake(); err != nil {
			signal()
			return
		}
		defer dc.Close()
		closeOnStop(stop, comm)
		if d.DNSSilent {
			// everything the peer sends has arrived (a DNS write returns once acknowledged); the server's answer
			// is never fetched, and the well-behaved clients start only now
			scriptSteps(dc, d, stop, true)
			atomic.StoreInt32(&mc.muted, 1)
			time.Sleep(300 * time.Millisecond)
			signal()
			<-stop
			return
		}
		signal()
		script(dc, d, stop)
	}
}

func goodClient(p *vlib.Pair, idx int, timeout time.Duration) string {
	var dial func(string) (net.Conn, error)
	if idx == 0 {
		dial = p.Dial
	} else {
		ec, err := p.AddClient("data")
		if err != nil {
			return "extra client start: " + err.Error()
		}
		defer ec.Close()
		dial = ec.Dial
	}
	c, err := dial("data")
	if err != nil {
		return "dial: " + err.Error()
	}
	defer c.Close()
	msg := vlib.PRF(uint64(idx)+77, 0, 300)
	c.SetDeadline(time.Now().Add(timeout))
	if _, err := c.Write(msg); err != nil {
		return "write: " + err.Error()
	}
	got, err := vlib.ReadFullTimeout(c, len(msg), timeout)
	if vlib.FirstDiff(got, msg) != -1 {
		return fmt.Sprintf("well-behaved client %d got %d of %d echo bytes within %v (%v)", idx, len(got), len(msg), timeout, err)
	}
	return ""
}

func runCase(d caseDesc) (problem string, inconclusive bool) {
	tgt := vlib.NewTarget("data", vlib.EchoHandler)
	defer tgt.Close()
	cfg := vlib.PairConfig{Carrier: d.Kind, ClientInsecure: true,
		Channels:  []vlib.ChannelSpec{{Name: "data", Target: tgt.URL()}},
		Listeners: []vlib.ListenerSpec{{Channel: "data"}}}
	if d.StartTLS || d.Kind == vlib.CarTCPTLS || d.Kind == vlib.CarHTTPS {
		cfg.ServerCert = &vlib.GetPKI().ServerGood
	}
	var p *vlib.Pair
	var err error
	release := func(bool) {}
	if d.Kind == vlib.CarDNS {
		p, release, err = vlib.SharedDNSPair(fmt.Sprintf("c15/%p", tgt), func() (*vlib.Pair, error) { return vlib.StartPair(cfg) })
	} else {
		p, err = vlib.StartPair(cfg)
	}
	if err != nil {
		if vlib.IsBindError(err) {
			return "", true
		}
		return "pair start: " + err.Error(), false
	}
	defer func() { release(true); p.Close() }()

	stop := make(chan struct{})
	ready := make(chan struct{}, d.Stalled)
	var wg sync.WaitGroup
	for i := 0; i < d.Stalled; i++ {
		wg.Add(1)
		go func() { defer wg.Done(); startStalled(p, d, stop, ready) }()
	}
	defer func() { close(stop); wg.Wait() }()
	for i := 0; i < d.Stalled; i++ {
		select {
		case <-ready:
		case <-time.After(60 * time.Second):
			return "", true // the stalled peers themselves could not be set up
		}
	}
	time.Sleep(150 * time.Millisecond) // let the server pick the stalled peers up

	timeout := 10 * time.Second
	if d.Kind == vlib.CarDNS {
		timeout = 40 * time.Second
	}
	res := make([]string, d.Good)
	var gw sync.WaitGroup
	for i := 0; i < d.Good; i++ {
		gw.Add(1)
		go func(i int) { defer gw.Done(); res[i] = goodClient(p, i, timeout) }(i)
	}
	gw.Wait()
	for _, r := range res {
		if r != "" {
			// re-confirm once while the peers are still stalled (distinguishes overload from blocking)
			if again := goodClient(p, 1, timeout); again != "" {
				return fmt.Sprintf("%s while %d peer(s) stall at %q; second attempt by a fresh client: %s; log: %v", r, d.Stalled, d.Stall, again, vlib.Tap.Tail(4)), false
			}
			return "", true
		}
	}
	return "", false
}

func TestStalledPeers(t *testing.T) {
	rapid.Check(t, func(rt *rapid.T) {
		nk := len(kinds)
		d := caseDesc{Kind: kinds[rapid.IntRange(0, nk-1).Draw(rt, "kind")]}
		if d.Kind == vlib.CarDNS && !vlib.Thorough() && rapid.IntRange(0, 2).Draw(rt, "dnsRare") != 0 {
			d.Kind = vlib.CarTCP
		}
		stalls := []string{stConnect, stPartial, stBetween, stUpgraded, stGarbage, stSlow, stMalformed, stMalformed}
		if d.Kind == vlib.CarTCPTLS || d.Kind == vlib.CarHTTPS {
			stalls = append(stalls, stTLSHello, stTLSHello)
		}
		if d.Kind == vlib.CarDNS {
			stalls = []string{stConnect, stPartial, stBetween, stUpgraded, stGarbage, stMalformed}
		}
		d.Stall = stalls[rapid.IntRange(0, len(stalls)-1).Draw(rt, "stall")]
		d.Cut = rapid.IntRange(1, 5000).Draw(rt, "cut")
		d.AfterAnnounce = d.Stall == stMalformed && rapid.Bool().Draw(rt, "afterAnnounce")
		d.Stalled = rapid.IntRange(1, 5).Draw(rt, "stalled")
		if d.Kind == vlib.CarDNS {
			d.Stalled = rapid.IntRange(1, 2).Draw(rt, "stalledDns")
			d.DNSSilent = rapid.Bool().Draw(rt, "dnsSilent")
		}
		d.Good = rapid.IntRange(1, 3).Draw(rt, "good")
		d.StartTLS = (d.Kind == vlib.CarTCP || d.Kind == vlib.CarUnix || d.Kind == vlib.CarHTTP || d.Kind == vlib.CarUDP) && rapid.IntRange(0, 2).Draw(rt, "starttls") == 0
		if d.StartTLS && rapid.IntRange(0, 3).Draw(rt, "startTLSHello") == 0 {
			d.Stall = stStartTLSHello
			d.Stalled = rapid.IntRange(1, 8).Draw(rt, "stalledInHello")
		}
		vlib.Tap.Reset()
		problem, inconclusive := runCase(d)
		if inconclusive {
			vlib.Rec.Inconclusive("setup-or-overload")
			return
		}
		labels := []string{"kind:" + d.Kind, "stall:" + d.Stall, fmt.Sprintf("stalled:%d", d.Stalled), fmt.Sprintf("good:%d", d.Good)}
		if d.DNSSilent {
			labels = append(labels, "dns-peer-stops-polling")
		}
		vlib.Rec.Case(fmt.Sprintf("%+v", d), true, labels, func() interface{} { return d })
		if problem != "" {
			vlib.Rec.Violation(map[string]interface{}{"property": "C15", "case": d, "problem": problem})
			rt.Fatalf("C15 %+v: %s", d, problem)
		}
	})
}

// TestDNSStallPoints enumerates, for the DNS endpoint (whose cases are drawn rarely above because each takes seconds),
// every stall point at which the server has something to say to the stalled peer, with one stalled and one
// well-behaved peer each.
func TestDNSStallPoints(t *testing.T) {
	for _, silent := range []bool{true, false} {
		for _, st := range []string{stBetween, stGarbage, stUpgraded, stPartial, stConnect} {
			d := caseDesc{Kind: vlib.CarDNS, Stall: st, Cut: 40, Stalled: 1, Good: 1, DNSSilent: silent}
			vlib.Tap.Reset()
			problem, inconclusive := runCase(d)
			if inconclusive {
				vlib.Rec.Inconclusive("setup-or-overload")
				continue
			}
			labels := []string{"kind:" + d.Kind, "stall:" + d.Stall, "enumerated"}
			if silent {
				labels = append(labels, "dns-peer-stops-polling")
			}
			vlib.Rec.Case(fmt.Sprintf("enumerated %+v", d), true, labels, func() interface{} { return d })
			if problem != "" {
				vlib.Rec.Violation(map[string]interface{}{"property": "C15", "case": d, "problem": problem})
				t.Fatalf("C15 %+v: %s", d, problem)
			}
		}
	}
}

// TestMalformedRequests enumerates every malformed request of the list, as first request and as the request after a good
// announce, on the socket, the KCP and the websocket endpoint, each followed by a well-behaved client that must be served.
func TestMalformedRequests(t *testing.T) {
	for _, kind := range []string{vlib.CarTCP, vlib.CarUDP, vlib.CarHTTP} {
		for i := range malformedRequests {
			for _, after := range []bool{false, true} {
				d := caseDesc{Kind: kind, Stall: stMalformed, Cut: i, Stalled: 1, Good: 1, AfterAnnounce: after}
				vlib.Tap.Reset()
				problem, inconclusive := runCase(d)
				if inconclusive {
					vlib.Rec.Inconclusive("setup-or-overload")
					continue
				}
				vlib.Rec.Case(fmt.Sprintf("enumerated %+v", d), true, []string{"kind:" + d.Kind, "stall:" + d.Stall, "enumerated"}, func() interface{} {
					return map[string]interface{}{"case": d, "request": malformedRequests[i]}
				})
				if problem != "" {
					vlib.Rec.Violation(map[string]interface{}{"property": "C15", "case": d, "request": malformedRequests[i], "problem": problem})
					t.Fatalf("C15 %+v: %s", d, problem)
				}
			}
		}
	}
}

// TestPeersStalledInsideStartTLS enumerates, for the endpoints that offer StartTLS, 1..8 peers that were granted StartTLS
// and never send their TLS hello, with two well-behaved clients (which themselves use StartTLS) arriving meanwhile.
func TestPeersStalledInsideStartTLS(t *testing.T) {
	for _, kind := range []string{vlib.CarTCP, vlib.CarHTTP, vlib.CarUDP} {
		for _, stalled := range []int{1, 4, 8} {
			d := caseDesc{Kind: kind, StartTLS: true, Stall: stStartTLSHello, Cut: 1, Stalled: stalled, Good: 2}
			vlib.Tap.Reset()
			problem, inconclusive := runCase(d)
			if inconclusive {
				vlib.Rec.Inconclusive("setup-or-overload")
				continue
			}
			vlib.Rec.Case(fmt.Sprintf("enumerated %+v", d), true, []string{"kind:" + d.Kind, "stall:" + d.Stall, "enumerated", fmt.Sprintf("stalled:%d", stalled)}, func() interface{} { return d })
			if problem != "" {
				vlib.Rec.Violation(map[string]interface{}{"property": "C15", "case": d, "problem": problem})
				t.Fatalf("C15 %+v: %s", d, problem)
			}
		}
	}
}
