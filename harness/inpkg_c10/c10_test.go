//go:build verif

package dns

import (
	"bytes"
	"fmt"
	"reflect"
	"strings"
	"testing"

	"github.com/bokysan/socketace/v2/internal/streams/dns/commands"
	"github.com/bokysan/socketace/v2/internal/streams/dns/util"
	"github.com/bokysan/socketace/v2/internal/util/enc"
	vlib "github.com/bokysan/socketace/v2/internal/zzverif/vcore"
	mdns "github.com/miekg/dns"
	"golang.org/x/net/dns/dnsmessage"
	"pgregory.net/rapid"
)

func TestMain(m *testing.M) { vlib.Main(m) }

var downCodecs = []enc.Encoder{enc.Base32Encoding, enc.Base64Encoding, enc.Base64uEncoding, enc.Base85Encoding, enc.Base91Encoding, enc.Base128Encoding, enc.RawEncoding}

type rtype struct {
	name string
	t    dnsmessage.Type
}

var rtypes = []rtype{
	{"NULL", util.QueryTypeNull}, {"PRIVATE", util.QueryTypePrivate}, {"TXT", util.QueryTypeTxt}, {"SRV", util.QueryTypeSrv},
	{"MX", util.QueryTypeMx}, {"CNAME", util.QueryTypeCname}, {"AAAA", util.QueryTypeAAAA}, {"A", util.QueryTypeA},
}

// question builds the query a client would send (the answer echoes it).
func question(domain string, qt dnsmessage.Type) *mdns.Msg {
	m := &mdns.Msg{}
	m.Id = 7727
	m.RecursionDesired = true
	m.Question = []mdns.Question{{Name: "yabc." + domain + ".", Qtype: uint16(qt), Qclass: mdns.ClassINET}}
	return m
}

// outcome of pushing a response through server serializer -> Pack -> Unpack -> client deserializer
type outcome struct {
	Stage string // "", encode, pack, unpack, decode, panic
	Err   string
	Got   commands.Response
}

func pushResponse(resp commands.Response, domain string, qt dnsmessage.Type, e enc.Encoder) (o outcome) {
	defer func() {
		if r := recover(); r != nil {
			o = outcome{Stage: "panic", Err: fmt.Sprint(r)}
		}
	}()
	server := commands.Serializer{Domain: domain, Downstream: util.DownstreamConfig{Encoder: e}}
	msg, err := server.EncodeDnsResponseWithParams(resp, question(domain, qt), qt, e)
	if err != nil {
		return outcome{Stage: "encode", Err: err.Error()}
	}
	packed, err := msg.Pack()
	if err != nil {
		return outcome{Stage: "pack", Err: err.Error()}
	}
	var wire mdns.Msg
	if err := wire.Unpack(packed); err != nil {
		return outcome{Stage: "unpack", Err: err.Error()}
	}
	client := commands.Serializer{Domain: domain, Downstream: util.DownstreamConfig{Encoder: e}}
	got, err := client.DecodeDnsResponseWithParams(&wire, e)
	if err != nil {
		return outcome{Stage: "decode", Err: err.Error()}
	}
	return outcome{Got: got}
}

func sameResponse(a, b commands.Response) string {
	if reflect.TypeOf(a) != reflect.TypeOf(b) {
		return fmt.Sprintf("decoded as %T, sent %T", b, a)
	}
	errEq := func(x, y error) bool {
		if (x == nil) != (y == nil) {
			return false
		}
		return x == nil || x.Error() == y.Error()
	}
	switch x := a.(type) {
	case *commands.PacketResponse:
		y := b.(*commands.PacketResponse)
		if !errEq(x.Err, y.Err) {
			return fmt.Sprintf("error differs: %v vs %v", x.Err, y.Err)
		}
		if x.Err != nil {
			return ""
		}
		if x.LastAckedSeqNo != y.LastAckedSeqNo {
			return fmt.Sprintf("ack differs: %d vs %d", x.LastAckedSeqNo, y.LastAckedSeqNo)
		}
		if (x.Packet == nil) != (y.Packet == nil) {
			return "packet presence differs"
		}
		if x.Packet != nil && (x.Packet.SeqNo != y.Packet.SeqNo || !bytes.Equal(x.Packet.Data, y.Packet.Data)) {
			return fmt.Sprintf("packet differs: seq %d vs %d, %d vs %d bytes, first difference at %d", x.Packet.SeqNo, y.Packet.SeqNo, len(x.Packet.Data), len(y.Packet.Data), vlib.FirstDiff(x.Packet.Data, y.Packet.Data))
		}
	case *commands.VersionResponse:
		y := b.(*commands.VersionResponse)
		if x.ServerVersion != y.ServerVersion || x.UserId != y.UserId || !errEq(x.Err, y.Err) {
			return fmt.Sprintf("fields differ: %+v vs %+v", x, y)
		}
	case *commands.SetOptionsResponse:
		if !errEq(x.Err, b.(*commands.SetOptionsResponse).Err) {
			return "error differs"
		}
	case *commands.ErrorResponse:
		if !errEq(x.Err, b.(*commands.ErrorResponse).Err) {
			return fmt.Sprintf("error differs: %v vs %v", x.Err, b.(*commands.ErrorResponse).Err)
		}
	case *commands.TestDownstreamEncoderResponse:
		y := b.(*commands.TestDownstreamEncoderResponse)
		if !errEq(x.Err, y.Err) || (x.Err == nil && !bytes.Equal(x.Data, y.Data)) {
			return fmt.Sprintf("probe data differs: %d vs %d bytes (first difference at %d), err %v vs %v", len(x.Data), len(y.Data), vlib.FirstDiff(x.Data, y.Data), x.Err, y.Err)
		}
	case *commands.TestUpstreamEncoderResponse:
		y := b.(*commands.TestUpstreamEncoderResponse)
		if !errEq(x.Err, y.Err) || (x.Err == nil && !bytes.Equal(x.Data, y.Data)) {
			return fmt.Sprintf("echoed pattern differs: %q vs %q", x.Data, y.Data)
		}
	case *commands.TestDownstreamFragmentSizeResponse:
		y := b.(*commands.TestDownstreamFragmentSizeResponse)
		if !errEq(x.Err, y.Err) || (x.Err == nil && (x.FragmentSize != y.FragmentSize || !bytes.Equal(x.Data, y.Data))) {
			return fmt.Sprintf("fragment probe differs: size %d vs %d, %d vs %d bytes", x.FragmentSize, y.FragmentSize, len(x.Data), len(y.Data))
		}
	}
	return ""
}

// selectable: the way the client itself decides that a (record type, codec) works on a path - its downstream probe
// response round-trips. Computed over the transparent wire.
func selectable(domain string, qt dnsmessage.Type, e enc.Encoder) bool {
	o := pushResponse(&commands.TestDownstreamEncoderResponse{Data: util.DownloadCodecCheck}, domain, qt, e)
	if o.Stage != "" {
		return false
	}
	r, ok := o.Got.(*commands.TestDownstreamEncoderResponse)
	return ok && r.Err == nil && bytes.Equal(r.Data, util.DownloadCodecCheck)
}

// capacity the wrap code states for one answer, in wrapped (encoded) bytes; 0 = unbounded for our sizes
func statedCapacity(rt string) int {
	switch rt {
	case "A":
		return 255 * 3
	case "AAAA":
		return 65535 * 14
	}
	return 0
}

func drawErr(rt *rapid.T) error {
	if rapid.IntRange(0, 3).Draw(rt, "hasErr") != 0 {
		return nil
	}
	return commands.BadErrors[rapid.IntRange(0, len(commands.BadErrors)-1).Draw(rt, "err")]
}

func drawLen(rt *rapid.T, label string) int {
	edges := []int{0, 1, 2, 3, 4, 13, 14, 15, 56, 57, 58, 234, 235, 236, 252, 253, 254, 255, 256, 3 * 85, 14 * 18, 506, 759, 760, 1200, 4096, 8192}
	switch rapid.IntRange(0, 3).Draw(rt, label+"Kind") {
	case 0:
		return edges[rapid.IntRange(0, len(edges)-1).Draw(rt, label+"E")]
	case 1:
		return rapid.IntRange(0, 300).Draw(rt, label+"S")
	case 2:
		k := []int{3, 14, 253}[rapid.IntRange(0, 2).Draw(rt, label+"M")]
		return k*rapid.IntRange(0, 30).Draw(rt, label+"K") + rapid.IntRange(0, 2).Draw(rt, label+"D")
	default:
		return rapid.IntRange(0, 8192).Draw(rt, label+"A")
	}
}

func drawResponse(rt *rapid.T) (commands.Response, string, int) {
	switch rapid.IntRange(0, 8).Draw(rt, "type") {
	case 0:
		return &commands.VersionResponse{ServerVersion: rapid.Uint32().Draw(rt, "sv"), UserId: uint16(rapid.IntRange(0, 1295).Draw(rt, "uid")), Err: drawErr(rt)}, "version", 0
	case 1:
		return &commands.SetOptionsResponse{Err: drawErr(rt)}, "set-options", 0
	case 2:
		return &commands.ErrorResponse{Err: commands.BadErrors[rapid.IntRange(0, len(commands.BadErrors)-1).Draw(rt, "err")]}, "error", 0
	case 3:
		n := drawLen(rt, "probe")
		return &commands.TestDownstreamEncoderResponse{Data: vlib.PRF(rapid.Uint64().Draw(rt, "k"), 0, n), Err: drawErr(rt)}, "downstream-codec-probe", n
	case 4:
		n := rapid.IntRange(0, 59).Draw(rt, "plen")
		return &commands.TestUpstreamEncoderResponse{Data: vlib.PRF(rapid.Uint64().Draw(rt, "k"), 0, n), Err: drawErr(rt)}, "upstream-codec-probe", n
	case 5:
		n := drawLen(rt, "frag")
		return &commands.TestDownstreamFragmentSizeResponse{FragmentSize: uint32(n), Data: vlib.PRF(rapid.Uint64().Draw(rt, "k"), 0, n), Err: drawErr(rt)}, "fragment-size-probe", n
	default:
		r := &commands.PacketResponse{LastAckedSeqNo: uint16(rapid.IntRange(0, 65535).Draw(rt, "ack")), Err: drawErr(rt)}
		n := 0
		if rapid.IntRange(0, 4).Draw(rt, "hasPacket") != 0 {
			n = drawLen(rt, "pay")
			var data []byte
			switch rapid.IntRange(0, 3).Draw(rt, "content") {
			case 0:
				data = make([]byte, n)
			case 1:
				data = bytes.Repeat([]byte{0xff}, n)
			default:
				data = vlib.PRF(rapid.Uint64().Draw(rt, "k"), 0, n)
			}
			r.Packet = &util.Packet{SeqNo: uint16(rapid.IntRange(0, 65535).Draw(rt, "seq")), Data: data}
		}
		return r, "packet", n
	}
}

func classify(rtn string, e enc.Encoder, domain string, resp commands.Response, kind string, n int, o outcome, sel bool) (sig, msg string) {
	desc := fmt.Sprintf("type=%s rtype=%s codec=%s domain=%q payload=%d", kind, rtn, e.Name(), domain, n)
	switch {
	case o.Stage == "panic":
		return "panic rtype=" + rtn, desc + ": panic: " + o.Err
	case o.Stage != "":
		// a reported failure: acceptable unless the triple is selectable and the payload within the stated capacity
		if sel {
			wrapped := int(float64(n)*e.Ratio()) + 16
			if c := statedCapacity(rtn); c > 0 && wrapped > c {
				return "", ""
			}
			if chunk := map[string]int{"A": 3, "AAAA": 14}[rtn]; chunk > 0 && o.Stage == "pack" {
				if enc, err := resp.Encode(e); err == nil && len(enc)%chunk != 0 {
					return fmt.Sprintf("rtype=%s wrapped-length-not-multiple-of-%d", rtn, chunk), desc + fmt.Sprintf(": %s records have a fixed size, the wrapped response is %d bytes (not a multiple of %d) and cannot be packed: %s", rtn, len(enc), chunk, o.Err)
				}
			}
			return "selectable-but-fails rtype=" + rtn, desc + fmt.Sprintf(": the client's own probe passes for this (record type, codec, domain) but this response fails at %s: %s", o.Stage, o.Err)
		}
		return "", ""
	default:
		if d := sameResponse(resp, o.Got); d != "" {
			if !sel {
				// The property speaks about selectable codecs: a (record type, codec) pair whose probe fails is never
				// negotiated, so corruption there cannot reach a user. Counted, not judged.
				vlib.Rec.Label("non-selectable-pair-corrupts:" + rtn + "/" + e.Name())
				return "", ""
			}
			return "silently-different rtype=" + rtn, desc + ": the client received a silently different response: " + d
		}
	}
	return "", ""
}

func TestResponsesSurviveTheWire(t *testing.T) { rapid.Check(t, propResponseSurvivesTheWire) }

// FuzzResponsesSurviveTheWire drives the same property from coverage-guided byte strings (thorough tier).
func FuzzResponsesSurviveTheWire(f *testing.F) { f.Fuzz(rapid.MakeFuzz(propResponseSurvivesTheWire)) }

func propResponseSurvivesTheWire(rt *rapid.T) {
	{
		r := rtypes[rapid.IntRange(0, len(rtypes)-1).Draw(rt, "rtype")]
		e := downCodecs[rapid.IntRange(0, len(downCodecs)-1).Draw(rt, "codec")]
		domain := []string{"example.org", "a.b", "t.Example.COM", strings.Repeat("d", 40) + ".net", strings.Repeat("x", 63) + "." + strings.Repeat("y", 50) + ".org"}[rapid.IntRange(0, 4).Draw(rt, "domain")]
		resp, kind, n := drawResponse(rt)
		sel := selectable(domain, r.t, e)
		o := pushResponse(resp, domain, r.t, e)
		sig, msg := classify(r.name, e, domain, resp, kind, n, o, sel)
		nontrivial := n > 14 || n == 2 || n == 3 || n == 4 || (n >= 13 && n <= 15)
		labels := []string{"type:" + kind, "rtype:" + r.name, "codec:" + e.Name(), fmt.Sprintf("selectable:%v", sel), "stage:" + o.Stage}
		vlib.Rec.Case(fmt.Sprintf("%s|%s|%s|%s|%+v", kind, r.name, e.Name(), domain, resp), nontrivial, labels, func() interface{} {
			return map[string]interface{}{"type": kind, "rtype": r.name, "codec": e.Name(), "domain": domain, "payload_len": n, "selectable": sel, "outcome_stage": o.Stage}
		})
		if sig != "" {
			if vlib.IsKnown("C10", sig) {
				vlib.Rec.Known(sig, map[string]interface{}{"problem": msg})
				return
			}
			vlib.Rec.Violation(map[string]interface{}{"property": "C10", "signature": sig, "problem": msg, "response": fmt.Sprintf("%+v", resp)})
			rt.Fatalf("C10 [%s] %s", sig, msg)
		}
	}
}

// TestMustBeSelectable keeps the operational definition from becoming vacuous: these combinations must pass the
// client's own probe on a transparent wire.
func TestMustBeSelectable(t *testing.T) {
	must := map[string][]enc.Encoder{
		"NULL": {enc.RawEncoding, enc.Base32Encoding}, "PRIVATE": {enc.RawEncoding, enc.Base32Encoding},
		"TXT": {enc.Base32Encoding, enc.Base64Encoding, enc.Base64uEncoding}, "MX": {enc.Base32Encoding, enc.Base64Encoding, enc.Base64uEncoding},
		"CNAME": {enc.Base32Encoding, enc.Base64Encoding, enc.Base64uEncoding}, "SRV": {enc.Base32Encoding},
	}
	for _, r := range rtypes {
		for _, e := range must[r.name] {
			for _, domain := range []string{"example.org", "a.b", strings.Repeat("d", 40) + ".net"} {
				ok := selectable(domain, r.t, e)
				vlib.Rec.Case("must|"+r.name+e.Name()+domain, true, []string{"must-be-selectable", "rtype:" + r.name}, func() interface{} {
					return map[string]interface{}{"rtype": r.name, "codec": e.Name(), "domain": domain, "selectable": ok}
				})
				if !ok {
					o := pushResponse(&commands.TestDownstreamEncoderResponse{Data: util.DownloadCodecCheck}, domain, r.t, e)
					sig := "not-selectable rtype=" + r.name
					msg := fmt.Sprintf("record type %s with codec %s over domain %q does not even carry the 48-byte downstream probe (stage %s: %s)", r.name, e.Name(), domain, o.Stage, o.Err)
					if vlib.IsKnown("C10", sig) {
						vlib.Rec.Known(sig, map[string]interface{}{"problem": msg})
						continue
					}
					vlib.Rec.Violation(map[string]interface{}{"property": "C10", "signature": sig, "problem": msg})
					t.Errorf("C10 [%s] %s", sig, msg)
				}
			}
		}
	}
}

// TestPayloadWalk walks every payload length 0..N of packet responses for every selectable (record type, codec).
func TestPayloadWalk(t *testing.T) {
	maxLen := vlib.Pick(1300, 8192)
	domain := "example.org"
	for _, r := range rtypes {
		for _, e := range downCodecs {
			if !selectable(domain, r.t, e) {
				continue
			}
			reported := map[string]bool{}
			prevStage := ""
			for n := 0; n <= maxLen; n++ {
				resp := &commands.PacketResponse{LastAckedSeqNo: uint16(n), Packet: &util.Packet{SeqNo: uint16(n * 3), Data: vlib.PRF(uint64(n), 0, n)}}
				o := pushResponse(resp, domain, r.t, e)
				sig, msg := classify(r.name, e, domain, resp, "packet", n, o, true)
				if n > 0 && o.Stage != prevStage {
					// a capacity or format boundary lies between n-1 and n: what happens there may depend on the content
					// (a record that sorts to the wrong place shows only if its bytes differ from their neighbours')
					for _, m := range []int{n - 1, n} {
						for k := 1; k <= 48 && sig == ""; k++ {
							r2 := &commands.PacketResponse{LastAckedSeqNo: uint16(m + k), Packet: &util.Packet{SeqNo: uint16(m*3 + k), Data: vlib.PRF(uint64(m*1000+k), 0, m)}}
							o2 := pushResponse(r2, domain, r.t, e)
							if s2, m2 := classify(r.name, e, domain, r2, "packet", m, o2, true); s2 != "" && !strings.HasPrefix(s2, "rtype=") {
								sig, msg = s2, m2+fmt.Sprintf(" (content %d of the sweep at the boundary between %d and %d bytes)", k, n-1, n)
							}
							vlib.Rec.Case(fmt.Sprintf("walk-boundary|%s|%s|%d|%d", r.name, e.Name(), m, k), true, []string{"payload-walk-boundary-contents", "rtype:" + r.name, "codec:" + e.Name()}, func() interface{} {
								return map[string]interface{}{"type": "packet", "rtype": r.name, "codec": e.Name(), "domain": domain, "payload_len": m, "content": k, "outcome_stage": o2.Stage}
							})
						}
					}
				}
				prevStage = o.Stage
				vlib.Rec.Case(fmt.Sprintf("walk|%s|%s|%d", r.name, e.Name(), n), n > 14, []string{"payload-walk", "rtype:" + r.name, "codec:" + e.Name()}, func() interface{} {
					return map[string]interface{}{"type": "packet", "rtype": r.name, "codec": e.Name(), "domain": domain, "payload_len": n, "outcome_stage": o.Stage}
				})
				if sig != "" && !reported[sig] {
					reported[sig] = true
					if vlib.IsKnown("C10", sig) {
						vlib.Rec.Known(sig, map[string]interface{}{"problem": msg})
						continue
					}
					vlib.Rec.Violation(map[string]interface{}{"property": "C10", "signature": sig, "problem": msg})
					t.Errorf("C10 [%s] %s", sig, msg)
				}
			}
		}
	}
}

// domainOfLength builds a tunnel domain of exactly n characters (labels of at most 63).
func domainOfLength(n int) string {
	if n < 3 {
		n = 3
	}
	tld := ".io"
	rest := n - len(tld)
	if rest < 1 {
		return "a.b"[:n]
	}
	var labels []string
	for rest > 0 {
		l := rest
		if l > 63 {
			l = 63
			if rest-l == 1 { // do not leave room for a dot only
				l = 62
			}
		}
		labels = append(labels, strings.Repeat("d", l))
		rest -= l
		if rest > 0 {
			rest-- // the dot
		}
	}
	return strings.Join(labels, ".") + tld
}

// TestDomainLengthSweep: the room a record has for payload depends on the length of the tunnel domain, with its own
// boundary cases (label splitting every 57 characters, the 255-octet name limit). For every domain length 3..150
// (thorough ..200), every record type and every codec selectable over that domain, packet responses from empty to several
// records long must arrive equal.
func TestDomainLengthSweep(t *testing.T) {
	maxDomain := vlib.Pick(150, 200)
	sizes := []int{0, 1, 30, 100, 139, 140, 141, 170, 200, 256, 300, 400, 600, 1000}
	reported := map[string]bool{}
	for L := 3; L <= maxDomain; L++ {
		domain := domainOfLength(L)
		if len(domain) != L {
			continue
		}
		for _, r := range rtypes {
			for _, e := range downCodecs {
				if !selectable(domain, r.t, e) {
					continue
				}
				for _, n := range sizes {
					resp := &commands.PacketResponse{LastAckedSeqNo: uint16(n), Packet: &util.Packet{SeqNo: uint16(n * 3), Data: vlib.PRF(uint64(n+L), 0, n)}}
					o := pushResponse(resp, domain, r.t, e)
					sig, msg := classify(r.name, e, domain, resp, "packet", n, o, true)
					vlib.Rec.Case(fmt.Sprintf("dlen|%d|%s|%s|%d", L, r.name, e.Name(), n), true, []string{"domain-length-sweep", "rtype:" + r.name, "codec:" + e.Name()}, func() interface{} {
						return map[string]interface{}{"type": "packet", "rtype": r.name, "codec": e.Name(), "domain_length": L, "payload_len": n, "outcome_stage": o.Stage}
					})
					if sig != "" && !reported[sig+e.Name()] {
						reported[sig+e.Name()] = true
						if vlib.IsKnown("C10", sig) {
							vlib.Rec.Known(sig, map[string]interface{}{"problem": msg})
							continue
						}
						vlib.Rec.Violation(map[string]interface{}{"property": "C10", "signature": sig, "problem": msg})
						t.Errorf("C10 [%s] %s", sig, msg)
					}
				}
			}
		}
	}
}
