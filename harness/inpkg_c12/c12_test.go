//go:build verif

package dns

import (
	"encoding/json"
	"fmt"
	"net"
	"os"
	"path/filepath"
	"runtime"
	"strings"
	"sync/atomic"
	"testing"
	"time"

	"github.com/bokysan/socketace/v2/internal/streams/dns/commands"
	"github.com/bokysan/socketace/v2/internal/streams/dns/util"
	"github.com/bokysan/socketace/v2/internal/util/enc"
	vlib "github.com/bokysan/socketace/v2/internal/zzverif/vcore"
	mdns "github.com/miekg/dns"
	"golang.org/x/net/dns/dnsmessage"
	"pgregory.net/rapid"
)

func TestMain(m *testing.M) { vlib.Main(m) }

var (
	addrOwner   = &net.UDPAddr{IP: net.IPv4(10, 0, 0, 1), Port: 4000}
	addrForeign = &net.UDPAddr{IP: net.IPv4(10, 9, 9, 9), Port: 5353}
)

// journal writes the input about to be tried, so that a process death (unbounded allocation) still has a replay.
func journal(v interface{}) {
	dir := os.Getenv("VERIF_RUNDIR")
	if dir == "" {
		return
	}
	b, _ := json.Marshal(v)
	_ = os.WriteFile(filepath.Join(dir, "last_input.json"), b, 0o644)
}

// ---- message grammar -----------------------------------------------------------------------------------------------

var cmdLetters = "vVlLoOrRyYzZmMcCeE"

func drawName(rt *rapid.T, liveId uint16) (name string, class string) {
	dom := []string{domain, "EXAMPLE.ORG", "Example.Org", "example.com", "org", "sub." + domain, ""}[rapid.IntRange(0, 6).Draw(rt, "domain")]
	suffix := "."
	if dom != "" {
		suffix = "." + dom + "."
	}
	switch rapid.IntRange(0, 8).Draw(rt, "nameKind") {
	case 8:
		// the domain's own text, wholly or partly INSIDE a label (a dot or backslash that is label content, written
		// \. and \\ in presentation format), so that the name looks like a tunnel name to a textual suffix test
		head := []string{"v", "c", "cabc00", "z", "yabc", "mail", ""}[rapid.IntRange(0, 6).Draw(rt, "head")]
		tail := []string{
			`\.` + domain + ".",
			`\\.` + domain + ".",
			`\\\.` + domain + ".",
			"." + strings.Replace(domain, ".", `\.`, 1) + ".",
			`\.` + strings.Replace(domain, ".", `\.`, 1) + ".",
			`\.` + strings.ToUpper(domain) + ".",
			`x\.` + domain + "." + domain + ".",
			`\046` + domain + ".",
			`\092.` + domain + ".",
		}[rapid.IntRange(0, 8).Draw(rt, "tail")]
		return head + tail, "domain-text-inside-label"
	case 0:
		// ordinary look-ups
		host := []string{"mail", "www", "ldap", "_dmarc", "ns1", "e", "v", "c", "y", "yabc", "z", "zabc12", "o", "r", "l", "m", "localhost", "*"}[rapid.IntRange(0, 17).Draw(rt, "host")]
		return host + suffix, "ordinary"
	case 1:
		// the bare domain / root
		if dom == "" {
			return ".", "root"
		}
		return dom + ".", "bare-domain"
	case 2:
		// 1-3 characters after a command letter
		l := string(cmdLetters[rapid.IntRange(0, len(cmdLetters)-1).Draw(rt, "cmd")]) + rapid.StringMatching(`[a-z0-9]{0,5}`).Draw(rt, "short")
		return l + suffix, "short"
	case 3:
		// command + cache + user id + alphabet soup
		cmd := string(cmdLetters[rapid.IntRange(0, len(cmdLetters)-1).Draw(rt, "cmd")])
		cache := rapid.StringMatching(`[a-z0-9]{3}`).Draw(rt, "cache")
		uid := []string{"00", "01", commands.EncodeUserId(liveId), "zz", "ZZ", "-1", "!!", "1295", "99"}[rapid.IntRange(0, 8).Draw(rt, "uid")]
		body := rapid.StringMatching(`[a-zA-Z0-9\-+]{0,50}`).Draw(rt, "soup")
		return cmd + cache + uid + body + suffix, "soup"
	case 7:
		// command + cache + user id + arbitrary label octets (presentation format \\DDD), biased to the rare ones
		cmd := string(cmdLetters[rapid.IntRange(0, len(cmdLetters)-1).Draw(rt, "cmd")])
		uid := []string{commands.EncodeUserId(liveId), commands.EncodeUserId(liveId), "00", "zz"}[rapid.IntRange(0, 3).Draw(rt, "uid8")]
		var sb strings.Builder
		sb.WriteString(cmd + "abc" + uid)
		for i, n := 0, rapid.IntRange(1, 40).Draw(rt, "octets"); i < n; i++ {
			var b byte
			switch rapid.IntRange(0, 3).Draw(rt, "octetKind") {
			case 0:
				b = []byte{0xfe, 0xff, 0x00, 0x7f, 0x80, 0xfd, 0xbc, 0x2e, 0x5c}[rapid.IntRange(0, 8).Draw(rt, "rare")]
			case 1:
				b = byte(rapid.IntRange(0x80, 0xff).Draw(rt, "high"))
			default:
				b = rapid.Byte().Draw(rt, "any")
			}
			sb.WriteString(fmt.Sprintf("\\%03d", b))
		}
		return sb.String() + suffix, "octets"
	case 4:
		// long multi-label soup
		n := rapid.IntRange(1, 4).Draw(rt, "labels")
		var ls []string
		for i := 0; i < n; i++ {
			ls = append(ls, rapid.StringMatching(`[a-z0-9]{1,60}`).Draw(rt, "label"))
		}
		return strings.Join(ls, ".") + suffix, "long-soup"
	default:
		return "", "valid-request"
	}
}

// drawValidRequest builds a syntactically valid tunnel request with hostile field values.
func drawValidRequest(rt *rapid.T, liveId uint16) (commands.Request, string) {
	uid := []uint16{0, 1, liveId, liveId, 1295, 500}[rapid.IntRange(0, 5).Draw(rt, "uidV")]
	switch rapid.IntRange(0, 5).Draw(rt, "reqKind") {
	case 0:
		return &commands.VersionRequest{ClientVersion: []uint32{ProtocolVersion, 0, 1, 0xFFFFFFFF}[rapid.IntRange(0, 3).Draw(rt, "ver")]}, "version"
	case 1:
		r := &commands.SetOptionsRequest{UserId: uid}
		if rapid.Bool().Draw(rt, "hasFrag") {
			f := []uint32{0, 1, 2, 1 << 31, 0xFFFFFFFE, 65535, 65536, 1 << 20}[rapid.IntRange(0, 7).Draw(rt, "frag")]
			r.DownstreamFragmentSize = &f
		}
		if rapid.Bool().Draw(rt, "closed") {
			t := true
			r.Closed = &t
		}
		if rapid.Bool().Draw(rt, "codec") {
			r.DownstreamEncoder = downCodecsC12[rapid.IntRange(0, len(downCodecsC12)-1).Draw(rt, "dc")]
			r.UpstreamEncoder = downCodecsC12[rapid.IntRange(0, len(downCodecsC12)-1).Draw(rt, "uc")]
		}
		return r, "set-options"
	case 2:
		return &commands.TestDownstreamFragmentSizeRequest{UserId: uid, FragmentSize: []uint32{0, 1, 768, 8192, 65535, 65536, 1 << 24, 1 << 31, 0xFFFFFFFF}[rapid.IntRange(0, 8).Draw(rt, "fsize")]}, "fragment-size-probe"
	case 3:
		return &commands.TestDownstreamEncoderRequest{DownstreamEncoder: downCodecsC12[rapid.IntRange(0, len(downCodecsC12)-1).Draw(rt, "denc")]}, "downstream-codec-probe"
	case 4:
		return &commands.TestUpstreamEncoderRequest{UserId: uid, Pattern: []byte(rapid.StringMatching(`[a-zA-Z0-9\-]{0,50}`).Draw(rt, "pat"))}, "upstream-codec-probe"
	default:
		r := &commands.PacketRequest{UserId: uid, LastAckedSeqNo: uint16(rapid.IntRange(0, 65535).Draw(rt, "ack"))}
		if rapid.Bool().Draw(rt, "hasPacket") {
			r.Packet = &util.Packet{SeqNo: uint16(rapid.IntRange(0, 65535).Draw(rt, "seq")), Data: vlib.PRF(9, 0, rapid.IntRange(0, 60).Draw(rt, "len"))}
		}
		return r, "packet"
	}
}

var downCodecsC12 = []enc.Encoder{enc.Base32Encoding, enc.Base64Encoding, enc.Base64uEncoding, enc.Base85Encoding, enc.Base91Encoding, enc.Base128Encoding, enc.Base192Encoding, enc.RawEncoding}

func drawMessage(rt *rapid.T, liveId uint16, sessionCodec enc.Encoder) (*mdns.Msg, map[string]interface{}) {
	name, class := drawName(rt, liveId)
	qtypeChoices := []uint16{10, uint16(util.QueryTypePrivate), 16, 33, 15, 5, 28, 1, 0, 255, 252, 41, 65000, 65535}
	qtype := qtypeChoices[rapid.IntRange(0, len(qtypeChoices)-1).Draw(rt, "qtype")]
	if rapid.IntRange(0, 5).Draw(rt, "anyQtype") == 0 {
		qtype = uint16(rapid.IntRange(0, 65535).Draw(rt, "qtypeAny"))
	}
	qclass := []uint16{1, 1, 1, 3, 255, 0}[rapid.IntRange(0, 5).Draw(rt, "qclass")]
	desc := map[string]interface{}{"class": class, "qtype": qtype, "qclass": qclass}
	var m *mdns.Msg
	if class == "valid-request" {
		req, kind := drawValidRequest(rt, liveId)
		bodyCodec := enc.Base32Encoding
		if rapid.Bool().Draw(rt, "bodyInSessionCodec") {
			bodyCodec = sessionCodec
		}
		ser := commands.Serializer{Domain: domain, Upstream: util.UpstreamConfig{Encoder: bodyCodec}}
		built, err := ser.EncodeDnsRequestWithParams(req, dnsmessage.Type(qtype), bodyCodec)
		if err != nil {
			return nil, nil
		}
		m = built
		desc["request"] = fmt.Sprintf("%s %+v", kind, req)
		name = m.Question[0].Name
		// optionally truncate or corrupt the body
		switch rapid.IntRange(0, 3).Draw(rt, "corrupt") {
		case 0:
			first := strings.SplitN(name, ".", 2)
			if len(first[0]) > 1 {
				cut := rapid.IntRange(1, len(first[0])).Draw(rt, "cut")
				name = first[0][:cut] + "." + first[1]
				desc["class"] = "truncated-valid-request"
			}
		case 1:
			b := []byte(name)
			pos := rapid.IntRange(0, len(b)-1).Draw(rt, "pos")
			if b[pos] != '.' {
				b[pos] = "abz019AZ-"[rapid.IntRange(0, 8).Draw(rt, "chr")]
			}
			name = string(b)
			desc["class"] = "corrupted-valid-request"
		}
	}
	if m == nil {
		m = &mdns.Msg{}
		m.RecursionDesired = true
	}
	m.Id = uint16(rapid.IntRange(0, 65535).Draw(rt, "id"))
	m.Question = []mdns.Question{{Name: name, Qtype: qtype, Qclass: qclass}}
	desc["name"] = name
	desc["additional_section"] = drawExtra(rt, m)
	// only wire-representable input
	w, _, err := wire(m)
	if err != nil {
		return nil, nil
	}
	return w, desc
}

// fakeWriter is the dns.ResponseWriter of a server that has no TSIG secrets configured (socketace never configures any):
// miekg/dns reports TsigStatus() == nil for every request then, also for one that carries a TSIG record.
type fakeWriter struct {
	remote net.Addr
	msg    *mdns.Msg
}

func (w *fakeWriter) LocalAddr() net.Addr  { return &net.UDPAddr{IP: net.IPv4(127, 0, 0, 1), Port: 53} }
func (w *fakeWriter) RemoteAddr() net.Addr { return w.remote }
func (w *fakeWriter) WriteMsg(m *mdns.Msg) error {
	if m != nil {
		if _, err := m.Pack(); err != nil {
			return err
		}
	}
	w.msg = m
	return nil
}
func (w *fakeWriter) Write(b []byte) (int, error) { return len(b), nil }
func (w *fakeWriter) Close() error                { return nil }
func (w *fakeWriter) TsigStatus() error           { return nil }
func (w *fakeWriter) TsigTimersOnly(bool)         {}
func (w *fakeWriter) Hijack()                     {}

// drawExtra: what a query may carry besides its question - nothing (mostly), an EDNS0 record, a TSIG record (as the last
// record, where miekg/dns recognises it, or followed by another record), or an unrelated address record.
func drawExtra(rt *rapid.T, m *mdns.Msg) string {
	tsig := func() mdns.RR {
		return &mdns.TSIG{Hdr: mdns.RR_Header{Name: "key.example.", Rrtype: mdns.TypeTSIG, Class: mdns.ClassANY, Ttl: 0},
			Algorithm: mdns.HmacMD5, TimeSigned: 1600000000, Fudge: 300, MACSize: 16, MAC: "000102030405060708090a0b0c0d0e0f", OrigId: m.Id}
	}
	arec := func() mdns.RR {
		return &mdns.A{Hdr: mdns.RR_Header{Name: "x.example.", Rrtype: mdns.TypeA, Class: mdns.ClassINET, Ttl: 1}, A: net.IPv4(10, 0, 0, 1)}
	}
	switch rapid.IntRange(0, 9).Draw(rt, "extra") {
	case 0, 1:
		m.SetEdns0(uint16(rapid.IntRange(0, 65535).Draw(rt, "udpSize")), rapid.Bool().Draw(rt, "do"))
		return "edns0"
	case 2, 3:
		m.Extra = append(m.Extra, tsig())
		return "tsig"
	case 4:
		m.SetEdns0(4096, false)
		m.Extra = append(m.Extra, tsig())
		return "edns0+tsig"
	case 5:
		m.Extra = append(m.Extra, tsig(), arec())
		return "tsig-not-last"
	case 6:
		m.Extra = append(m.Extra, arec())
		return "address-record"
	}
	return "none"
}

type workMeter struct {
	t0    time.Time
	alloc uint64
}

func startMeter() workMeter {
	var ms runtime.MemStats
	runtime.ReadMemStats(&ms)
	return workMeter{t0: time.Now(), alloc: ms.TotalAlloc}
}

func (w workMeter) stop() (time.Duration, uint64) {
	var ms runtime.MemStats
	runtime.ReadMemStats(&ms)
	return time.Since(w.t0), ms.TotalAlloc - w.alloc
}

func callHandler(srv *ServerDnsListener, m *mdns.Msg, from net.Addr) (resp *mdns.Msg, err error, panicMsg string, hung bool) {
	type res struct {
		r *mdns.Msg
		e error
		p string
	}
	ch := make(chan res, 1)
	go func() {
		var out res
		defer func() {
			if r := recover(); r != nil {
				out.p = fmt.Sprint(r)
			}
			ch <- out
		}()
		// through the function the real UDP/TCP server calls for every datagram (it wraps the message handler: TSIG
		// echo, writing the answer), with a writer that behaves like miekg's for a server without TSIG secrets
		comm := &NetConnectionServerCommunicator{onMessage: srv.onMessage}
		fw := &fakeWriter{remote: from}
		comm.handleRequest(fw, m)
		out.r = fw.msg
	}()
	select {
	case o := <-ch:
		return o.r, o.e, o.p, false
	case <-time.After(5 * time.Second):
		return nil, nil, "", true
	}
}

func TestServerWithstandsStrayMessages(t *testing.T) {
	rapid.Check(t, func(rt *rapid.T) {
		ss := &simServer{}
		srv := NewServerDnsListener(domain, ss)
		defer srv.Close()
		s, err := openSession(ss, srv, addrOwner)
		if err != nil {
			rt.Fatalf("session setup: %v", err)
		}
		// the witness session runs on a drawn upstream codec, negotiated the way the handshake does it: stray messages
		// naming its identifier are decoded with that codec before the sender's address is judged
		upCodec := []enc.Encoder{enc.Base32Encoding, enc.Base64Encoding, enc.Base64uEncoding, enc.Base85Encoding, enc.Base91Encoding, enc.Base128Encoding}[rapid.IntRange(0, 5).Draw(rt, "sessionUpCodec")]
		s.client.Serializer.Upstream.Encoder = upCodec
		if err := s.client.SetEncodingUpstream(); err != nil || s.client.Serializer.Upstream.Encoder != upCodec {
			rt.Fatalf("could not switch the witness session to %v: %v", upCodec, err)
		}
		if msg := s.transfer(100, 300); msg != "" {
			rt.Fatalf("session does not work before any stray message: %s", msg)
		}
		n := rapid.IntRange(1, 12).Draw(rt, "messages")
		var descs []map[string]interface{}
		fail := func(sig, msg string, d map[string]interface{}) {
			if vlib.IsKnown("C12", sig) {
				vlib.Rec.Known(sig, map[string]interface{}{"message": d, "problem": msg})
				return
			}
			vlib.Rec.Violation(map[string]interface{}{"property": "C12", "signature": sig, "message": d, "problem": msg})
			rt.Fatalf("C12 [%s] %v: %s", sig, d, msg)
		}
		for i := 0; i < n; i++ {
			m, d := drawMessage(rt, s.client.userId, upCodec)
			if m == nil {
				continue
			}
			descs = append(descs, d)
			journal(d)
			inSeq, outSeq := s.user.in.NextSeqNo, s.user.out.NextSeqNo
			meter := startMeter()
			_, _, pmsg, hung := callHandler(srv, m, addrForeign)
			dur, alloc := meter.stop()
			labels := []string{"server", "class:" + fmt.Sprint(d["class"]), "additional:" + fmt.Sprint(d["additional_section"])}
			vlib.Rec.Case(fmt.Sprintf("srv|%v", d), true, labels, func() interface{} { return d })
			if pmsg != "" {
				fail("server-panic class="+fmt.Sprint(d["class"]), "the server's message handler panicked (miekg/dns does not recover: the process would crash): "+pmsg, d)
				return
			}
			if hung {
				fail("server-hang", "the server's message handler did not return within 5 s", d)
				return
			}
			if dur > time.Second || alloc > 16<<20 {
				fail("server-unbounded-work", fmt.Sprintf("one stray query cost %v and %d bytes of allocation", dur, alloc), d)
				return
			}
			if s.user.in.NextSeqNo != inSeq || s.user.out.NextSeqNo != outSeq {
				fail("session-disturbed", fmt.Sprintf("a stray query from a foreign address moved the established session's sequence numbers (%d/%d -> %d/%d)", inSeq, outSeq, s.user.in.NextSeqNo, s.user.out.NextSeqNo), d)
				return
			}
		}
		if msg := s.transfer(200, 500); msg != "" {
			fail("session-disturbed", "the established session no longer transfers data exactly after the stray queries: "+msg, map[string]interface{}{"messages": descs})
		}
	})
}

// TestOwnOptionsAreBounded: option values a session sets for itself must not make the server loop or allocate
// without bound (the fragment size is later used as chunk size by the send queue).
func TestOwnOptionsAreBounded(t *testing.T) {
	for _, frag := range []uint32{0, 1, 2, 1 << 20, 1 << 31, 0xFFFFFFFE} {
		ss := &simServer{}
		srv := NewServerDnsListener(domain, ss)
		s, err := openSession(ss, srv, addrOwner)
		if err != nil {
			t.Fatalf("session setup: %v", err)
		}
		d := map[string]interface{}{"class": "own-set-options", "downstream_fragment_size": frag}
		journal(d)
		f := frag
		meter := startMeter()
		_, qerr := s.client.Query(&commands.SetOptionsRequest{UserId: s.client.userId, DownstreamFragmentSize: &f}, time.Second)
		// the server side now writes 3000 bytes to this session
		done := make(chan error, 1)
		go func() { _, err := s.user.Write(vlib.PRF(5, 0, 3000)); done <- err }()
		buf := make([]byte, 8192)
		got := 0
		finished := false
		deadline := time.Now().Add(20 * time.Second)
		for time.Now().Before(deadline) && !finished {
			s.client.SendAndReceive(s.client.out.NextChunk())
			for s.client.in.HasData() {
				k, _ := s.client.in.Read(buf)
				got += k
			}
			select {
			case <-done:
				finished = true
			default:
			}
			if _, alloc := meter.stop(); alloc > 2<<30 {
				break
			}
		}
		dur, alloc := meter.stop()
		vlib.Rec.Case(fmt.Sprintf("own-options|%d", frag), true, []string{"server", "class:own-set-options"}, func() interface{} { return d })
		// (the allocation figure includes the harness's own Pack/Unpack of every exchange)
		if !finished || alloc > 2<<30 {
			sig := "own-fragment-size-unbounded"
			msg := fmt.Sprintf("after set-options with downstream fragment size %d (answer error: %v) a 3000-byte server write %s; %d bytes delivered, %v, %d bytes allocated", frag, qerr, map[bool]string{true: "finished", false: "never finished"}[finished], got, dur, alloc)
			if vlib.IsKnown("C12", sig) {
				vlib.Rec.Known(sig, map[string]interface{}{"message": d, "problem": msg})
			} else {
				vlib.Rec.Violation(map[string]interface{}{"property": "C12", "signature": sig, "message": d, "problem": msg})
				t.Errorf("C12 [%s] %s", sig, msg)
			}
		}
		srv.Close()
	}
}

// ---- client side: arbitrary answers --------------------------------------------------------------------------------

// binaryPayload: 0-20 bytes for the binary record types, with a plausible order tag and command letter in front
// sometimes, and biased to the octets a codec alphabet does not contain
func binaryPayload(rt *rapid.T, label string) []byte {
	n := rapid.IntRange(0, 20).Draw(rt, label+"Len")
	b := make([]byte, n)
	for i := range b {
		switch rapid.IntRange(0, 3).Draw(rt, label+"Kind") {
		case 0:
			b[i] = []byte{0xfe, 0xff, 0x00, 0x7f, 0x80, 0xfd, 0xbc}[rapid.IntRange(0, 6).Draw(rt, label+"Rare")]
		case 1:
			b[i] = "cvoyzrel"[rapid.IntRange(0, 7).Draw(rt, label+"Cmd")]
		default:
			b[i] = rapid.Byte().Draw(rt, label+"Any")
		}
	}
	if n >= 3 && rapid.Bool().Draw(rt, label+"Tag") {
		b[0], b[1] = 1, 0
		b[2] = "cvoyzre"[rapid.IntRange(0, 6).Draw(rt, label+"Letter")]
	}
	return b
}

func drawAnswer(rt *rapid.T) (*mdns.Msg, map[string]interface{}) {
	q := &mdns.Msg{}
	q.SetQuestion("cabc00aaaa."+domain+".", uint16(util.QueryTypeNull))
	r := &mdns.Msg{}
	r.SetReply(q)
	n := rapid.IntRange(0, 4).Draw(rt, "records")
	var kinds []string
	owner := []string{"cabc00aaaa." + domain + ".", "other.example.com.", "."}[rapid.IntRange(0, 2).Draw(rt, "owner")]
	hdr := func(t uint16) mdns.RR_Header {
		return mdns.RR_Header{Name: owner, Rrtype: t, Class: mdns.ClassINET, Ttl: 1}
	}
	short := func(label string, max int) string {
		return rapid.StringMatching(fmt.Sprintf(`[a-z0-9]{0,%d}`, max)).Draw(rt, label)
	}
	for i := 0; i < n; i++ {
		switch rapid.IntRange(0, 8).Draw(rt, "rr") {
		case 0:
			kinds = append(kinds, "NULL")
			r.Answer = append(r.Answer, &mdns.NULL{Hdr: hdr(mdns.TypeNULL), Data: string(binaryPayload(rt, "null"))})
		case 1:
			kinds = append(kinds, "PRIVATE")
			r.Answer = append(r.Answer, &mdns.PrivateRR{Hdr: hdr(util.TypeSocketAce), Data: &util.SocketAcePrivate{Data: binaryPayload(rt, "priv")}})
		case 2:
			kinds = append(kinds, "TXT")
			var txt []string
			for k, m := 0, rapid.IntRange(0, 3).Draw(rt, "txts"); k < m; k++ {
				txt = append(txt, short("txt", 5))
			}
			if len(txt) == 0 {
				txt = []string{""}
			}
			r.Answer = append(r.Answer, &mdns.TXT{Hdr: hdr(mdns.TypeTXT), Txt: txt})
		case 3:
			kinds = append(kinds, "MX")
			r.Answer = append(r.Answer, &mdns.MX{Hdr: hdr(mdns.TypeMX), Preference: uint16(rapid.IntRange(0, 30).Draw(rt, "pref")), Mx: short("mx", 8) + "."})
		case 4:
			kinds = append(kinds, "SRV")
			r.Answer = append(r.Answer, &mdns.SRV{Hdr: hdr(mdns.TypeSRV), Priority: 1, Target: short("srv", 8) + "."})
		case 5:
			kinds = append(kinds, "CNAME")
			r.Answer = append(r.Answer, &mdns.CNAME{Hdr: hdr(mdns.TypeCNAME), Target: short("cname", 12) + "."})
		case 6:
			kinds = append(kinds, "A")
			r.Answer = append(r.Answer, &mdns.A{Hdr: hdr(mdns.TypeA), A: net.IPv4(byte(rapid.IntRange(0, 255).Draw(rt, "a")), 1, 2, 3)})
		case 7:
			kinds = append(kinds, "AAAA")
			ip := make(net.IP, 16)
			copy(ip, binaryPayload(rt, "aaaa"))
			ip[0], ip[1] = byte(i+1), 0
			r.Answer = append(r.Answer, &mdns.AAAA{Hdr: hdr(mdns.TypeAAAA), AAAA: ip})
		default:
			kinds = append(kinds, "SOA")
			r.Answer = append(r.Answer, &mdns.SOA{Hdr: hdr(mdns.TypeSOA), Ns: "ns.", Mbox: "m.", Serial: 1})
		}
	}
	if rapid.IntRange(0, 4).Draw(rt, "rcode") == 0 {
		r.Rcode = []int{mdns.RcodeServerFailure, mdns.RcodeNameError, mdns.RcodeRefused}[rapid.IntRange(0, 2).Draw(rt, "rc")]
	}
	w, _, err := wire(r)
	if err != nil {
		return nil, nil
	}
	return w, map[string]interface{}{"records": kinds, "owner": owner, "rcode": r.Rcode}
}

func TestClientWithstandsArbitraryAnswers(t *testing.T) {
	rapid.Check(t, func(rt *rapid.T) {
		ans, d := drawAnswer(rt)
		if ans == nil {
			rt.Skip("not wire-representable")
		}
		e := downCodecsC12[rapid.IntRange(0, len(downCodecsC12)-1).Draw(rt, "codec")]
		d["codec"] = e.Name()
		journal(d)
		vlib.Rec.Case(fmt.Sprintf("cli|%v", d), true, []string{"client", fmt.Sprintf("records:%d", len(ans.Answer))}, func() interface{} { return d })
		pmsg := ""
		func() {
			defer func() {
				if r := recover(); r != nil {
					pmsg = fmt.Sprint(r)
				}
			}()
			ser := commands.Serializer{Domain: domain, Downstream: util.DownstreamConfig{Encoder: e}}
			_, _ = ser.DecodeDnsResponseWithParams(ans, e)
		}()
		if pmsg == "" {
			// and through the whole query path of a client connection
			func() {
				defer func() {
					if r := recover(); r != nil {
						pmsg = fmt.Sprint(r)
					}
				}()
				ss := &simServer{}
				ss.RegisterAccept(func(m *mdns.Msg, a net.Addr) (*mdns.Msg, error) {
					cp := ans.Copy()
					cp.Id = m.Id
					return cp, nil
				})
				client, _ := NewClientDnsConnection(domain, newSimClient(ss, addrOwner))
				qt := util.QueryTypeNull
				client.Serializer.Upstream.QueryType = &qt
				client.Serializer.Upstream.Encoder = enc.Base32Encoding
				client.Serializer.Downstream.Encoder = e
				_ = client.SendAndReceive(nil)
				_ = client.VersionHandshake
			}()
		}
		if pmsg != "" {
			sig := "client-panic"
			msg := "the client's answer decoder panicked: " + pmsg
			if vlib.IsKnown("C12", sig) {
				vlib.Rec.Known(sig, map[string]interface{}{"answer": d, "problem": msg})
				return
			}
			vlib.Rec.Violation(map[string]interface{}{"property": "C12", "signature": sig, "answer": d, "problem": msg})
			rt.Fatalf("C12 [%s] %v: %s", sig, d, msg)
		}
	})
}

// ---- client operations against a server that answers in the tunnel's own format, but hostile -------------------------

// hostileResponse is a tunnel answer with an arbitrary command letter and body (what a broken or malicious server,
// or a resolver that rewrites answers, can send in the right envelope).
type hostileResponse struct {
	letter byte
	body   []byte
}

func (h *hostileResponse) Command() commands.Command { return commands.Command{Code: h.letter} }
func (h *hostileResponse) Encode(e enc.Encoder) ([]byte, error) {
	return append([]byte{h.letter}, h.body...), nil
}
func (h *hostileResponse) Decode(e enc.Encoder, resp []byte) error { return nil }

func drawHostileResponse(rt *rapid.T, label string) (*hostileResponse, string) {
	letter := "evlorzymcEVxc0"[rapid.IntRange(0, 13).Draw(rt, label+"Letter")]
	h := &hostileResponse{letter: letter}
	kind := rapid.IntRange(0, 4).Draw(rt, label+"Body")
	switch kind {
	case 0:
		// nothing after the letter
	case 1:
		// an error text as the server sends it: Base32 of a string - known names, empty, with NUL bytes
		txt := []string{"", "BADIP", "BADCONN", "BADLEN", "BADUSER", "BADCOMMAND", "x\x00y", "\x00", "BADIP\x00", "some longer text that is no known error"}[rapid.IntRange(0, 9).Draw(rt, label+"Text")]
		h.body = enc.Base32Encoding.Encode([]byte(txt))
	case 2:
		// Base32 of arbitrary bytes (what most answer bodies are made of)
		h.body = enc.Base32Encoding.Encode(binaryPayload(rt, label+"Bin"))
	case 3:
		// raw bytes
		h.body = binaryPayload(rt, label+"Raw")
	default:
		h.body = []byte(rapid.StringMatching(`[a-z0-9]{1,12}`).Draw(rt, label+"Soup"))
	}
	return h, fmt.Sprintf("%c+%s", letter, vlib.Hex(h.body))
}

// TestClientOperationsAgainstHostileServer: every operation of the client's handshake and data path is run against a
// server whose answers (a drawn cycle of 1-3 of them) arrive in the tunnel's own envelope but carry arbitrary command
// letters and bodies. Each operation must return (result or error) within the bound and must not panic.
func TestClientOperationsAgainstHostileServer(t *testing.T) {
	budget := int32(vlib.Pick(300, 4000))
	var ran int32
	ops := []struct {
		name string
		run  func(c *ClientDnsConnection)
	}{
		{"VersionHandshake", func(c *ClientDnsConnection) { _ = c.VersionHandshake() }},
		{"AutoDetectQueryType", func(c *ClientDnsConnection) { _ = c.AutoDetectQueryType() }},
		{"AutodetectEdns0Extension", func(c *ClientDnsConnection) { c.AutodetectEdns0Extension() }},
		{"AutodetectEncodingUpstream", func(c *ClientDnsConnection) { c.AutodetectEncodingUpstream() }},
		{"SetEncodingUpstream", func(c *ClientDnsConnection) { _ = c.SetEncodingUpstream() }},
		{"AutodetectEncodingDowntream", func(c *ClientDnsConnection) { c.AutodetectEncodingDowntream() }},
		{"SetEncodingDownstream", func(c *ClientDnsConnection) { _ = c.SetEncodingDownstream() }},
		{"AutodetectFragmentSize", func(c *ClientDnsConnection) { _, _ = c.AutodetectFragmentSize() }},
		{"SwitchFragmentSize", func(c *ClientDnsConnection) { _ = c.SwitchFragmentSize(600) }},
		{"AutodetectLazyMode", func(c *ClientDnsConnection) { c.AutodetectLazyMode() }},
		{"SendAndReceive", func(c *ClientDnsConnection) { _ = c.SendAndReceive(nil) }},
		{"Handshake", func(c *ClientDnsConnection) { _ = c.Handshake() }},
	}
	rapid.Check(t, func(rt *rapid.T) {
		if atomic.AddInt32(&ran, 1) > budget {
			return
		}
		op := ops[rapid.IntRange(0, len(ops)-1).Draw(rt, "operation")]
		n := rapid.IntRange(1, 3).Draw(rt, "answers")
		var cycle []*hostileResponse
		var names []string
		for i := 0; i < n; i++ {
			h, nm := drawHostileResponse(rt, fmt.Sprintf("a%d", i))
			cycle = append(cycle, h)
			names = append(names, nm)
		}
		e := downCodecsC12[rapid.IntRange(0, len(downCodecsC12)-1).Draw(rt, "codec")]
		d := map[string]interface{}{"operation": op.name, "answers": names, "codec": e.Name()}
		journal(d)
		vlib.Rec.Case(fmt.Sprintf("hostile|%v", d), true, []string{"client-operation", "op:" + op.name}, func() interface{} { return d })
		ss := &simServer{}
		var k int32
		ser := commands.Serializer{Domain: domain}
		ss.RegisterAccept(func(m *mdns.Msg, a net.Addr) (*mdns.Msg, error) {
			h := cycle[int(atomic.AddInt32(&k, 1)-1)%len(cycle)]
			return ser.EncodeDnsResponseWithParams(h, m, dnsmessage.Type(m.Question[0].Qtype), e)
		})
		comm := newSimClient(ss, addrOwner)
		client, _ := NewClientDnsConnection(domain, comm)
		qt := util.QueryTypeNull
		client.Serializer.Upstream.QueryType = &qt
		client.Serializer.Upstream.Encoder = enc.Base32Encoding
		client.Serializer.Downstream.Encoder = e
		client.Serializer.Upstream.FragmentSize = 100
		client.Serializer.Downstream.FragmentSize = 200
		done := make(chan string, 1)
		go func() {
			defer func() {
				if r := recover(); r != nil {
					done <- fmt.Sprint(r)
					return
				}
				done <- ""
			}()
			op.run(client)
		}()
		sig, msg := "", ""
		select {
		case pmsg := <-done:
			if pmsg != "" {
				sig, msg = "client-panic", fmt.Sprintf("%s panicked on a hostile answer: %s", op.name, pmsg)
			}
		case <-time.After(90 * time.Second):
			sig, msg = "client-does-not-terminate", fmt.Sprintf("%s did not return within 90s although every query was answered at once (%d exchanges so far)", op.name, comm.Exchanges)
		}
		comm.closed = true
		go func() { defer func() { recover() }(); client.Close() }()
		if sig != "" {
			if vlib.IsKnown("C12", sig) {
				vlib.Rec.Known(sig, map[string]interface{}{"case": d, "problem": msg})
				return
			}
			vlib.Rec.Violation(map[string]interface{}{"property": "C12", "signature": sig, "case": d, "problem": msg})
			rt.Fatalf("C12 [%s] %v: %s", sig, d, msg)
		}
	})
}

// ---- native fuzz targets -----------------------------------------------------------------------------------------

func FuzzServerMessage(f *testing.F) {
	seedNames := []string{"mail." + domain + ".", "v." + domain + ".", "yabc." + domain + ".", domain + ".", "vaaaaaaaa." + domain + ".", "c1wg00caaaa." + domain + ".", "."}
	for _, n := range seedNames {
		m := &mdns.Msg{}
		m.SetQuestion(n, 10)
		if b, err := m.Pack(); err == nil {
			f.Add(b)
		}
	}
	ss := &simServer{}
	srv := NewServerDnsListener(domain, ss)
	f.Fuzz(func(t *testing.T, data []byte) {
		m := &mdns.Msg{}
		if m.Unpack(data) != nil || len(m.Question) != 1 {
			return
		}
		_, _, pmsg, hung := callHandler(srv, m, addrForeign)
		if pmsg != "" || hung {
			t.Fatalf("C12 fuzz: query %q type %d: panic=%q hung=%v", m.Question[0].Name, m.Question[0].Qtype, pmsg, hung)
		}
	})
}

func FuzzClientAnswer(f *testing.F) {
	q := &mdns.Msg{}
	q.SetQuestion("cabc00aaaa."+domain+".", 10)
	r := &mdns.Msg{}
	r.SetReply(q)
	if b, err := r.Pack(); err == nil {
		f.Add(b, uint8(0))
	}
	r.Answer = append(r.Answer, &mdns.NULL{Hdr: mdns.RR_Header{Name: q.Question[0].Name, Rrtype: mdns.TypeNULL, Class: 1}, Data: "\x01"})
	if b, err := r.Pack(); err == nil {
		f.Add(b, uint8(1))
	}
	f.Fuzz(func(t *testing.T, data []byte, ci uint8) {
		m := &mdns.Msg{}
		if m.Unpack(data) != nil {
			return
		}
		e := downCodecsC12[int(ci)%len(downCodecsC12)]
		ser := commands.Serializer{Domain: domain, Downstream: util.DownstreamConfig{Encoder: e}}
		_, _ = ser.DecodeDnsResponseWithParams(m, e)
	})
}
