//go:build verif

package dns

import (
	"fmt"
	"net"
	"strings"
	"sync"
	"testing"
	"time"

	"github.com/bokysan/socketace/v2/internal/streams/dns/commands"
	"github.com/bokysan/socketace/v2/internal/streams/dns/util"
	"github.com/bokysan/socketace/v2/internal/util/enc"
	vlib "github.com/bokysan/socketace/v2/internal/zzverif/vcore"
	mdns "github.com/miekg/dns"
	"pgregory.net/rapid"
)

func TestMain(m *testing.M) { vlib.Main(m) }

var addrPool = []net.Addr{
	&net.UDPAddr{IP: net.IPv4(10, 0, 0, 1), Port: 4000},
	&net.UDPAddr{IP: net.IPv4(10, 0, 0, 2), Port: 4000},
	&net.UDPAddr{IP: net.IPv4(10, 0, 0, 3), Port: 53000},
	// the same hosts on another port: a different network address, too
	&net.UDPAddr{IP: net.IPv4(10, 0, 0, 1), Port: 4001},
	&net.UDPAddr{IP: net.IPv4(10, 0, 0, 3), Port: 53001},
}

type sess struct {
	*session
	idx    int
	addr   int
	live   bool
	tag    uint64
	closed string
}

type world struct {
	ss      *simServer
	srv     *ServerDnsListener
	all     []*sess
	history []string
}

func (w *world) logf(f string, a ...interface{}) { w.history = append(w.history, fmt.Sprintf(f, a...)) }

func (w *world) liveOnes() []*sess {
	var l []*sess
	for _, s := range w.all {
		if s.live {
			l = append(l, s)
		}
	}
	return l
}

// rawRequest sends one request object from an arbitrary address using the victim's negotiated parameters and
// returns the decoded answer.
func (w *world) rawRequest(victim *sess, from net.Addr, req commands.Request) (commands.Response, error, string) {
	c := newSimClient(w.ss, from)
	ser := victim.client.Serializer
	msg, err := ser.EncodeDnsRequestWithParams(req, *ser.Upstream.QueryType, ser.Upstream.Encoder)
	if err != nil {
		return nil, err, ""
	}
	msg.Id = 4711
	d := time.Second
	ans, _, err := c.SendAndReceive(msg, &d)
	if c.panicMsg != "" {
		return nil, nil, c.panicMsg
	}
	if err != nil {
		return nil, err, ""
	}
	// The server words a refusal with its default codec or with that of the session the identifier belongs to now, which
	// need not be the codec the sender of this message negotiated once: a refusal is recognised under whichever codec
	// turns the answer into one of the protocol's error codes (no other codec turns it into one by chance).
	tryWith := []enc.Encoder{enc.Base32Encoding}
	for _, l := range w.all {
		tryWith = append(tryWith, l.client.Serializer.Downstream.Encoder)
	}
	for _, e := range tryWith {
		if r, derr := ser.DecodeDnsResponseWithParams(ans, e); derr == nil && r != nil {
			if re := respError(r); re != nil {
				for _, known := range commands.BadErrors {
					if re == known {
						return r, nil, ""
					}
				}
			}
		}
	}
	resp, derr := ser.DecodeDnsResponseWithParams(ans, ser.Downstream.Encoder)
	return resp, derr, ""
}

func respError(r commands.Response) error {
	switch v := r.(type) {
	case *commands.ErrorResponse:
		return v.Err
	case *commands.PacketResponse:
		return v.Err
	case *commands.SetOptionsResponse:
		return v.Err
	case *commands.TestUpstreamEncoderResponse:
		return v.Err
	case *commands.TestDownstreamFragmentSizeResponse:
		return v.Err
	case *commands.VersionResponse:
		return v.Err
	}
	return nil
}

func hostileRequest(rt *rapid.T, victim *sess) (commands.Request, string) {
	uid := victim.client.userId
	switch rapid.IntRange(0, 4).Draw(rt, "cmd") {
	case 0:
		// the most dangerous packet: exactly the sequence number the victim's server side expects next
		seq := victim.user.in.NextSeqNo
		if rapid.Bool().Draw(rt, "otherSeq") {
			seq = uint16(rapid.IntRange(0, 65535).Draw(rt, "seq"))
		}
		ack := victim.user.out.NextSeqNo - 1
		if rapid.Bool().Draw(rt, "otherAck") {
			ack = uint16(rapid.IntRange(0, 65535).Draw(rt, "ack"))
		}
		r := &commands.PacketRequest{UserId: uid, LastAckedSeqNo: ack}
		if rapid.IntRange(0, 3).Draw(rt, "hasData") != 0 {
			r.Packet = &util.Packet{SeqNo: seq, Data: []byte("EVIL-INJECTED-DATA")}
		}
		return r, "packet"
	case 1:
		r := &commands.SetOptionsRequest{UserId: uid}
		switch rapid.IntRange(0, 3).Draw(rt, "opt") {
		case 0:
			t := true
			r.Closed = &t
		case 1:
			r.DownstreamEncoder = enc.Base64Encoding
			r.UpstreamEncoder = enc.Base64Encoding
		case 2:
			f := uint32(3)
			r.DownstreamFragmentSize = &f
		default:
			t := true
			r.LazyMode = &t
		}
		return r, "set-options"
	case 2:
		return &commands.TestUpstreamEncoderRequest{UserId: uid, Pattern: []byte("aAspoof")}, "upstream-codec-probe"
	case 3:
		return &commands.TestDownstreamFragmentSizeRequest{UserId: uid, FragmentSize: uint32(rapid.IntRange(0, 2000).Draw(rt, "fsize"))}, "fragment-size-probe"
	default:
		return &commands.PacketRequest{UserId: uid, LastAckedSeqNo: victim.user.out.NextSeqNo - 1}, "poll"
	}
}

// drawOptions: what a session negotiates for itself - half of the sessions keep the defaults, the others switch one or
// both codecs (to one of those the client's own detection can choose on a NULL-record path) and ask for another fragment
// size. A session's negotiated settings are its own: whatever another session negotiates, its data keeps arriving.
func drawOptions(rt *rapid.T) sessionOptions {
	if rapid.Bool().Draw(rt, "defaultOptions") {
		return sessionOptions{}
	}
	ups := []enc.Encoder{nil, enc.Base64Encoding, enc.Base64uEncoding, enc.Base128Encoding}
	downs := []enc.Encoder{nil, enc.Base64Encoding, enc.Base64uEncoding, enc.Base128Encoding, enc.RawEncoding}
	return sessionOptions{
		Up:   ups[rapid.IntRange(0, len(ups)-1).Draw(rt, "upCodec")],
		Down: downs[rapid.IntRange(0, len(downs)-1).Draw(rt, "downCodec")],
		Frag: []uint32{0, 120, 400}[rapid.IntRange(0, 2).Draw(rt, "frag")],
	}
}

func TestSessionIsolation(t *testing.T) {
	rapid.Check(t, func(rt *rapid.T) {
		w := &world{ss: &simServer{}}
		w.srv = NewServerDnsListener(domain, w.ss)
		defer w.srv.Close()
		spoofs, closes, reopens, sharedAddr := 0, 0, 0, false
		seenOptions := map[string]bool{}
		noteOptions := func(o sessionOptions) { seenOptions[o.String()] = true }
		fail := func(sig, msg string) {
			if vlib.IsKnown("C13", sig) {
				vlib.Rec.Known(sig, map[string]interface{}{"history": w.history, "problem": msg})
				rt.Skip("known finding " + sig)
			}
			vlib.Rec.Violation(map[string]interface{}{"property": "C13", "signature": sig, "history": w.history, "problem": msg})
			rt.Fatalf("C13 [%s] %s\nhistory: %s", sig, msg, strings.Join(w.history, "; "))
		}
		checkAllLive := func(context string) {
			for _, s := range w.liveOnes() {
				s.tag += 2
				if msg := s.transfer(s.tag, 90); msg != "" {
					fail("live-session-broken", fmt.Sprintf("%s: live session #%d (id %d, %v) no longer transfers its own data exactly: %s", context, s.idx, s.client.userId, addrPool[s.addr], msg))
				}
			}
		}
		open := func(rt *rapid.T) {
			if len(w.liveOnes()) >= 5 {
				rt.Skip("enough sessions")
			}
			a := rapid.IntRange(0, len(addrPool)-1).Draw(rt, "addr")
			opts := drawOptions(rt)
			s, err := openSessionWith(w.ss, w.srv, addrPool[a], opts)
			if err != nil {
				fail("open-failed", fmt.Sprintf("a new session from %v (%v) could not be opened: %v", addrPool[a], opts, err))
			}
			noteOptions(opts)
			ns := &sess{session: s, idx: len(w.all), addr: a, live: true, tag: uint64(1000 * (len(w.all) + 1))}
			for _, o := range w.liveOnes() {
				if o.client.userId == ns.client.userId {
					fail("duplicate-session-id", fmt.Sprintf("new session got identifier %d which live session #%d holds", ns.client.userId, o.idx))
				}
				if o.addr == a {
					sharedAddr = true
				}
			}
			for _, o := range w.all {
				if !o.live && o.client.userId == ns.client.userId {
					reopens++
				}
			}
			w.all = append(w.all, ns)
			w.logf("open #%d from addr%d -> id %d, %v", ns.idx, a, ns.client.userId, opts)
		}
		// openMany: several clients perform their version handshake at the same instant (the DNS server handles
		// every query in its own goroutine)
		openMany := func(rt *rapid.T) {
			room := 5 - len(w.liveOnes())
			if room < 2 {
				rt.Skip("enough sessions")
			}
			k := rapid.IntRange(2, room).Draw(rt, "k")
			addrs := make([]int, k)
			for i := range addrs {
				addrs[i] = rapid.IntRange(0, len(addrPool)-1).Draw(rt, "addr")
			}
			optss := make([]sessionOptions, k)
			for i := range optss {
				optss[i] = drawOptions(rt)
			}
			res := make([]*session, k)
			errs := make([]error, k)
			start := make(chan struct{})
			var wg sync.WaitGroup
			for i := 0; i < k; i++ {
				wg.Add(1)
				go func(i int) {
					defer wg.Done()
					<-start
					res[i], errs[i] = openSessionNoAccept(w.ss, w.srv, addrPool[addrs[i]])
				}(i)
			}
			close(start)
			wg.Wait()
			w.logf("openMany %d from addrs %v, options %v", k, addrs, optss)
			byId := map[uint16]*userConnection{}
			for i := 0; i < k; i++ {
				c, err := w.srv.Accept()
				if err != nil {
					fail("open-failed", "accept after concurrent handshakes: "+err.Error())
				}
				u := c.(*userConnection)
				if _, dup := byId[u.UserId]; dup {
					fail("duplicate-session-id", fmt.Sprintf("two of %d concurrent handshakes were given identifier %d", k, u.UserId))
				}
				byId[u.UserId] = u
			}
			for i := 0; i < k; i++ {
				if errs[i] != nil {
					fail("open-failed", fmt.Sprintf("concurrent handshake %d failed: %v", i, errs[i]))
				}
				for _, o := range w.liveOnes() {
					if o.client.userId == res[i].client.userId {
						fail("duplicate-session-id", fmt.Sprintf("a concurrent handshake was given identifier %d which live session #%d holds", res[i].client.userId, o.idx))
					}
				}
				u, ok := byId[res[i].client.userId]
				if !ok {
					fail("duplicate-session-id", fmt.Sprintf("client %d was told identifier %d but the server has no such new session", i, res[i].client.userId))
				}
				res[i].user = u
				res[i].opts = optss[i]
				if err := res[i].finishSetup(); err != nil {
					fail("open-failed", fmt.Sprintf("session setup (%v) after concurrent handshake: %v", optss[i], err))
				}
				noteOptions(optss[i])
				ns := &sess{session: res[i], idx: len(w.all), addr: addrs[i], live: true, tag: uint64(1000 * (len(w.all) + 1))}
				w.all = append(w.all, ns)
			}
			checkAllLive("after concurrent handshakes")
		}
		if rapid.Bool().Draw(rt, "concurrentStart") {
			openMany(rt)
		} else {
			open(rt)
			open(rt)
		}
		pickLive := func(rt *rapid.T) *sess {
			l := w.liveOnes()
			if len(l) == 0 {
				rt.Skip("no live session")
			}
			return l[rapid.IntRange(0, len(l)-1).Draw(rt, "live")]
		}
		rt.Repeat(map[string]func(*rapid.T){
			"open":     open,
			"openMany": openMany,
			"transfer": func(rt *rapid.T) {
				s := pickLive(rt)
				n := rapid.IntRange(1, 700).Draw(rt, "n")
				s.tag += 2
				w.logf("transfer #%d n=%d", s.idx, n)
				if msg := s.transfer(s.tag, n); msg != "" {
					fail("live-session-broken", fmt.Sprintf("live session #%d (id %d) does not transfer its own data exactly: %s", s.idx, s.client.userId, msg))
				}
			},
			"closeByClient": func(rt *rapid.T) {
				s := pickLive(rt)
				if len(w.liveOnes()) < 2 {
					rt.Skip("keep one")
				}
				w.logf("closeByClient #%d (id %d)", s.idx, s.client.userId)
				s.client.Close()
				s.live, s.closed = false, "client"
				closes++
				checkAllLive("after session #" + fmt.Sprint(s.idx) + " was closed by its client")
			},
			"closeByServer": func(rt *rapid.T) {
				s := pickLive(rt)
				if len(w.liveOnes()) < 2 {
					rt.Skip("keep one")
				}
				w.logf("closeByServer #%d (id %d)", s.idx, s.client.userId)
				s.user.Close()
				s.live, s.closed = false, "server"
				closes++
				checkAllLive("after session #" + fmt.Sprint(s.idx) + " was closed by the server side")
			},
			"closeAgain": func(rt *rapid.T) {
				// the application on the server side closes its end of an already closed session (every piped
				// connection is closed from both directions): later sessions must not notice
				var dead []*sess
				for _, s := range w.all {
					if !s.live {
						dead = append(dead, s)
					}
				}
				if len(dead) == 0 {
					rt.Skip("no closed session")
				}
				s := dead[rapid.IntRange(0, len(dead)-1).Draw(rt, "dead")]
				w.logf("closeAgain #%d (id %d)", s.idx, s.client.userId)
				s.user.Close()
				checkAllLive(fmt.Sprintf("after the server side closed the already closed session #%d (id %d, %v) once more", s.idx, s.client.userId, addrPool[s.addr]))
			},
			"useClosedId": func(rt *rapid.T) {
				var dead []*sess
				for _, s := range w.all {
					if !s.live {
						reused := false
						for _, l := range w.liveOnes() {
							if l.client.userId == s.client.userId && l.addr == s.addr {
								reused = true // same id from the same address IS the new session: indistinguishable by design
							}
						}
						if !reused {
							dead = append(dead, s)
						}
					}
				}
				if len(dead) == 0 {
					rt.Skip("no closed session")
				}
				s := dead[rapid.IntRange(0, len(dead)-1).Draw(rt, "dead")]
				req, kind := hostileRequest(rt, s)
				w.logf("useClosedId #%d (id %d) %s", s.idx, s.client.userId, kind)
				resp, err, pmsg := w.rawRequest(s, addrPool[s.addr], req)
				if pmsg != "" {
					fail("server-panic", pmsg)
				}
				if err == nil && resp != nil && respError(resp) == nil {
					if _, isProbe := req.(*commands.TestUpstreamEncoderRequest); !isProbe || true {
						fail("closed-id-accepted", fmt.Sprintf("a %s request carrying the identifier of closed session #%d was accepted without error: %T %+v", kind, s.idx, resp, resp))
					}
				}
				checkAllLive("after a closed session's identifier was used")
			},
			"spoof": func(rt *rapid.T) {
				v := pickLive(rt)
				from := rapid.IntRange(0, len(addrPool)-1).Draw(rt, "from")
				if from == v.addr {
					from = (from + 1) % len(addrPool)
				}
				req, kind := hostileRequest(rt, v)
				inSeq, outSeq := v.user.in.NextSeqNo, v.user.out.NextSeqNo
				lastContact := v.user.lastConnection
				codecUp, codecDown, frag := v.user.Serializer.Upstream.Encoder, v.user.Serializer.Downstream.Encoder, v.user.Serializer.Downstream.FragmentSize
				w.logf("spoof #%d (id %d) from addr%d: %s %+v", v.idx, v.client.userId, from, kind, req)
				spoofs++
				resp, err, pmsg := w.rawRequest(v, addrPool[from], req)
				if pmsg != "" {
					fail("server-panic", pmsg)
				}
				if err == nil && resp != nil && respError(resp) == nil {
					fail("spoof-accepted", fmt.Sprintf("a %s message with session #%d's identifier from a foreign address (%v, owner %v) was answered without error: %+v", kind, v.idx, addrPool[from], addrPool[v.addr], resp))
				}
				if p, ok := resp.(*commands.PacketResponse); ok && p.Packet != nil {
					fail("spoof-extracts-data", "a spoofed poll returned a data packet of the victim session")
				}
				if v.user.in.NextSeqNo != inSeq || v.user.out.NextSeqNo != outSeq {
					fail("spoof-alters-session", fmt.Sprintf("a spoofed %s message moved the victim's sequence numbers", kind))
				}
				if !v.user.lastConnection.Equal(lastContact) {
					fail("spoof-alters-session", fmt.Sprintf("a spoofed %s message refreshed the victim session's last-contact time (the expiry of a session its owner has abandoned would be put off by anybody who names its identifier)", kind))
				}
				if v.user.Serializer.Upstream.Encoder != codecUp || v.user.Serializer.Downstream.Encoder != codecDown || v.user.Serializer.Downstream.FragmentSize != frag || v.user.closed {
					fail("spoof-alters-session", fmt.Sprintf("a spoofed %s message changed the victim session's parameters or closed it", kind))
				}
				v.tag += 2
				if msg := v.transfer(v.tag, 120); msg != "" {
					fail("spoof-alters-session", fmt.Sprintf("after a spoofed %s message the victim no longer transfers its data exactly: %s", kind, msg))
				}
			},
			"": func(rt *rapid.T) {
				seen := map[uint16]int{}
				for _, s := range w.liveOnes() {
					if o, dup := seen[s.client.userId]; dup {
						fail("duplicate-session-id", fmt.Sprintf("live sessions #%d and #%d share identifier %d", o, s.idx, s.client.userId))
					}
					seen[s.client.userId] = s.idx
				}
			},
		})
		checkAllLive("at the end of the history")
		nontrivial := len(w.all) >= 2 && (spoofs > 0 || closes > 0)
		labels := []string{fmt.Sprintf("sessions:%d", len(w.all))}
		if spoofs > 0 {
			labels = append(labels, "spoof")
		}
		if closes > 0 {
			labels = append(labels, "close")
		}
		if reopens > 0 {
			labels = append(labels, "slot-reuse")
		}
		if sharedAddr {
			labels = append(labels, "shared-address")
		}
		if len(seenOptions) > 1 {
			labels = append(labels, "sessions-with-different-negotiated-options")
		}
		h := w.history
		vlib.Rec.Case(strings.Join(h, ";"), nontrivial, labels, func() interface{} { return h })
	})
}

// ---- expiry (wall clock) --------------------------------------------------------------------------------------------

type expiryPlan struct {
	FirstAddr, SecondAddr int
	CloseFirstBy          string // client, server, none (first session just goes stale)
	TransfersBefore       int
	ThirdSession          bool
	LateClose             bool // the server side closes the first session's connection only after the sweep
}

// TestExpiryDoesNotKillSuccessors: the sweeper runs once a minute (hard-coded), so N independent listeners with
// generated histories all wait for the same real sweeps.
func TestExpiryDoesNotKillSuccessors(t *testing.T) {
	oldConn, oldOld := ConnectionTimeout, OldConnectionTimeout
	ConnectionTimeout = 20 * time.Second
	OldConnectionTimeout = 2 * time.Second
	defer func() { ConnectionTimeout, OldConnectionTimeout = oldConn, oldOld }()
	n := vlib.Pick(8, 60)
	sweeps := vlib.Pick(1, 2)
	gen := rapid.Custom(func(rt *rapid.T) expiryPlan {
		return expiryPlan{
			FirstAddr: rapid.IntRange(0, len(addrPool)-1).Draw(rt, "a1"), SecondAddr: rapid.IntRange(0, len(addrPool)-1).Draw(rt, "a2"),
			CloseFirstBy:    []string{"client", "server", "none"}[rapid.IntRange(0, 2).Draw(rt, "close")],
			TransfersBefore: rapid.IntRange(0, 3).Draw(rt, "xfers"), ThirdSession: rapid.Bool().Draw(rt, "third"),
			LateClose: rapid.Bool().Draw(rt, "lateClose"),
		}
	})
	type run struct {
		plan   expiryPlan
		w      *world
		second *sess
		third  *sess
		first  *sess
		fourth *sess
	}
	var runs []*run
	start := time.Now()
	for i := 0; i < n; i++ {
		plan := gen.Example(int(vlib.Seed()%100000) + i)
		w := &world{ss: &simServer{}}
		w.srv = NewServerDnsListener(domain, w.ss)
		defer w.srv.Close()
		r := &run{plan: plan, w: w}
		mk := func(a int) *sess {
			s, err := openSession(w.ss, w.srv, addrPool[a])
			if err != nil {
				t.Fatalf("open: %v", err)
			}
			ns := &sess{session: s, idx: len(w.all), addr: a, live: true, tag: uint64(1000 * (len(w.all) + 1))}
			w.all = append(w.all, ns)
			return ns
		}
		r.first = mk(plan.FirstAddr)
		for k := 0; k < plan.TransfersBefore; k++ {
			r.first.tag += 2
			r.first.transfer(r.first.tag, 50)
		}
		switch plan.CloseFirstBy {
		case "client":
			r.first.client.Close()
			r.first.live = false
		case "server":
			r.first.user.Close()
			r.first.live = false
		}
		r.second = mk(plan.SecondAddr) // reuses the first one's slot when that was closed
		if plan.ThirdSession {
			r.third = mk(plan.FirstAddr)
		}
		runs = append(runs, r)
	}
	violations := 0
	for sweep := 1; sweep <= sweeps; sweep++ {
		// keep the successors active until just after the sweep
		deadline := start.Add(time.Duration(sweep)*time.Minute + 4*time.Second)
		for time.Now().Before(deadline) {
			for _, r := range runs {
				for _, s := range []*sess{r.second, r.third, r.fourth} {
					if s != nil && s.live {
						s.client.SendAndReceive(nil) // a poll, as the client's poll loop would send
					}
				}
			}
			time.Sleep(3 * time.Second)
		}
		for i, r := range runs {
			if sweep == 1 && r.plan.CloseFirstBy == "none" {
				// the first session was never closed: it went stale (no traffic for ConnectionTimeout) and the sweep
				// retired it; a new session now gets its identifier
				if ns, err := openSession(r.w.ss, r.w.srv, addrPool[r.plan.SecondAddr]); err == nil {
					r.fourth = &sess{session: ns, idx: len(r.w.all), addr: r.plan.SecondAddr, live: true, tag: 9000}
					r.w.all = append(r.w.all, r.fourth)
				}
			}
			if r.plan.LateClose {
				// the server-side owner of the first session closes its connection now (every piped connection is
				// closed by its owner sooner or later)
				r.first.user.Close()
			}
			for _, s := range []*sess{r.second, r.third, r.fourth} {
				if s == nil {
					continue
				}
				s.tag += 2
				msg := s.transfer(s.tag, 200)
				desc := map[string]interface{}{"plan": r.plan, "listener": i, "sweep": sweep, "session_id": s.client.userId}
				vlib.Rec.Case(fmt.Sprintf("expiry|%d|%d|%+v|%d", i, sweep, r.plan, s.idx), true, []string{"expiry", "close-first-by:" + r.plan.CloseFirstBy, fmt.Sprintf("sweep:%d", sweep)}, func() interface{} { return desc })
				if msg != "" {
					sig := "expiry-kills-live-session"
					full := fmt.Sprintf("after expiry sweep %d an active session (id %d, opened after session #0 with id %d was %s-closed) no longer works: %s", sweep, s.client.userId, r.first.client.userId, r.plan.CloseFirstBy, msg)
					if vlib.IsKnown("C13", sig) {
						vlib.Rec.Known(sig, map[string]interface{}{"case": desc, "problem": full})
						continue
					}
					violations++
					desc["property"], desc["signature"], desc["problem"] = "C13", sig, full
					vlib.Rec.Violation(desc)
					t.Errorf("C13 [%s] plan %+v: %s", sig, r.plan, full)
					s.live = false
				}
			}
		}
	}
}

var _ = mdns.TypeA
