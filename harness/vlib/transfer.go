//go:build verif

package vlib

import (
	"fmt"
	"net"
	"sync"
	"time"
)

// TransferSpec is one bidirectional exchange over one logical connection.
type TransferSpec struct {
	Up, Down           []byte
	UpParts, DownParts []int
	Gap                time.Duration // micro-gap between writes so pieces are not coalesced
	Duplex             bool          // both directions at once, or up then down
	Timeout            time.Duration
}

// TransferResult is what both observation points saw.
type TransferResult struct {
	GotUp, GotDown []byte
	Problem        string // harness-level problem description ("" when the exchange completed)
	Stalled        bool
	Elapsed        time.Duration
}

// RunTransfer opens a logical connection for channel, runs the exchange against tgt and returns what the target
// received and what the application read. The application closes only after everything expected was seen at
// both ends (orderly close is C17's subject).
func RunTransfer(p *Pair, channel string, tgt *Target, spec TransferSpec) TransferResult {
	return PrepareTransfer(tgt, spec).Run(p, channel)
}

// PreparedTransfer is a transfer whose target side is already armed. Needed when the logical connection is
// opened by the client itself at start-up (standard-stream listeners).
type PreparedTransfer struct {
	tgt     *Target
	spec    TransferSpec
	release chan struct{}
	relOnce sync.Once
	upDone  chan struct{}
}

// PrepareTransfer arms the target for the exchange; call Run afterwards.
func PrepareTransfer(tgt *Target, spec TransferSpec) *PreparedTransfer {
	pt := &PreparedTransfer{tgt: tgt, spec: spec, release: make(chan struct{}), upDone: make(chan struct{})}
	tgt.DrainNew()
	tgt.SetHandler(func(tc *TargetConn) {
		var wg sync.WaitGroup
		writeDown := func() {
			defer wg.Done()
			_ = WriteParts(tc.Conn, spec.Down, spec.DownParts, spec.Gap)
		}
		wg.Add(1)
		if spec.Duplex {
			go writeDown()
			tc.ReadLoop(len(spec.Up))
		} else {
			tc.ReadLoop(len(spec.Up))
			go writeDown()
		}
		close(pt.upDone)
		wg.Wait()
		<-pt.release
		tc.Conn.Close()
	})
	return pt
}

// Run performs the application side of the exchange and collects both observations.
func (pt *PreparedTransfer) Run(p *Pair, channel string) TransferResult {
	res := TransferResult{}
	spec, tgt, upDone := pt.spec, pt.tgt, pt.upDone
	start := time.Now()
	rel := func() { pt.relOnce.Do(func() { close(pt.release) }) }
	defer rel()
	conn, err := p.Dial(channel)
	if err != nil {
		res.Problem = "dial client listener: " + err.Error()
		return res
	}
	_, isStdio := p.StdioApp[channel]
	defer func() {
		if !isStdio {
			conn.Close()
		}
	}()
	werr := make(chan error, 1)
	go func() { werr <- WriteParts(conn, spec.Up, spec.UpParts, spec.Gap) }()

	type rd struct {
		b   []byte
		err error
	}
	rch := make(chan rd, 1)
	go func() {
		b, err := readN(conn, len(spec.Down), spec.Timeout)
		rch <- rd{b, err}
	}()

	deadline := time.After(spec.Timeout)
	var tc *TargetConn
	select {
	case tc = <-tgt.newConn:
	case <-deadline:
		res.Problem = "target never saw a connection"
		res.Stalled = true
		res.Elapsed = time.Since(start)
		return res
	}
	gotW, gotR, gotU := false, false, false
	for !(gotW && gotR && gotU) {
		select {
		case e := <-werr:
			gotW = true
			if e != nil {
				res.Problem = "application write failed: " + e.Error()
			}
		case r := <-rch:
			gotR = true
			res.GotDown = r.b
			if r.err != nil && len(r.b) < len(spec.Down) {
				res.Problem = fmt.Sprintf("application read stopped after %d of %d bytes: %v", len(r.b), len(spec.Down), r.err)
			}
		case <-upDone:
			gotU = true
		case <-deadline:
			res.Stalled = true
			res.Problem = fmt.Sprintf("timeout after %v: appWriteDone=%v appReadDone=%v targetGotAll=%v (target has %d of %d)", spec.Timeout, gotW, gotR, gotU, tc.ReceivedLen(), len(spec.Up))
			res.GotUp = tc.Received()
			res.Elapsed = time.Since(start)
			return res
		}
		if res.Problem != "" && gotR && gotW {
			break
		}
	}
	res.GotUp = tc.Received()
	res.Elapsed = time.Since(start)
	return res
}

// readN reads exactly n bytes unless an error or the timeout stops it. Works for conns without deadlines.
func readN(c net.Conn, n int, d time.Duration) ([]byte, error) {
	out := make([]byte, 0, n)
	buf := make([]byte, 64*1024)
	for len(out) < n {
		want := n - len(out)
		if want > len(buf) {
			want = len(buf)
		}
		k, err := c.Read(buf[:want])
		out = append(out, buf[:k]...)
		if err != nil {
			return out, err
		}
	}
	return out, nil
}
