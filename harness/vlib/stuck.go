//go:build verif

package vlib

import (
	"fmt"
	"net"
	"os"
	"sync"
	"syscall"
	"time"
)

// StuckTarget is an address whose connection attempts are neither accepted nor refused - what a host that has stopped
// answering looks like to a dialler. It is a listening socket with an empty backlog whose queue the harness has filled,
// so that the kernel silently drops every further SYN. Release makes it accept (and close) everything from then on;
// a dial that was pending succeeds with its next SYN retransmission (1, 3, 7, 15 s after its first).
type StuckTarget struct {
	Port    int
	fd      int
	fillers []net.Conn
	mu      sync.Mutex
	ln      net.Listener
	closed  bool
}

// NewStuckTarget returns nil (and an error) when the kernel cannot be brought to drop SYNs for the address.
func NewStuckTarget() (*StuckTarget, error) {
	port := Port()
	fd, err := syscall.Socket(syscall.AF_INET, syscall.SOCK_STREAM, 0)
	if err != nil {
		return nil, err
	}
	_ = syscall.SetsockoptInt(fd, syscall.SOL_SOCKET, syscall.SO_REUSEADDR, 1)
	if err := syscall.Bind(fd, &syscall.SockaddrInet4{Port: port, Addr: [4]byte{127, 0, 0, 1}}); err != nil {
		syscall.Close(fd)
		return nil, err
	}
	if err := syscall.Listen(fd, 0); err != nil {
		syscall.Close(fd)
		return nil, err
	}
	st := &StuckTarget{Port: port, fd: fd}
	// fill the accept queue until a connection attempt hangs
	for i := 0; i < 8; i++ {
		c, err := net.DialTimeout("tcp", HostPort(port), 400*time.Millisecond)
		if err != nil {
			if ne, ok := err.(net.Error); ok && ne.Timeout() {
				return st, nil
			}
			st.Close()
			return nil, fmt.Errorf("stuck target: %v", err)
		}
		st.fillers = append(st.fillers, c)
	}
	st.Close()
	return nil, fmt.Errorf("stuck target: the kernel keeps accepting connections for a full queue")
}

func (s *StuckTarget) Addr() string { return HostPort(s.Port) }
func (s *StuckTarget) URL() string  { return "tcp://" + s.Addr() }

// Release starts accepting: every connection (queued, pending or new) is accepted, read for a moment and closed.
func (s *StuckTarget) Release() {
	s.mu.Lock()
	defer s.mu.Unlock()
	if s.ln != nil || s.closed {
		return
	}
	// a queue of one would drop all but one of the retransmissions that arrive together: widen it first
	_ = syscall.Listen(s.fd, 128)
	f := os.NewFile(uintptr(s.fd), "stuck-target")
	ln, err := net.FileListener(f)
	f.Close() // FileListener duplicated the descriptor
	s.fd = -1
	if err != nil {
		return
	}
	s.ln = ln
	go func() {
		for {
			c, err := ln.Accept()
			if err != nil {
				return
			}
			go func() {
				c.SetReadDeadline(time.Now().Add(300 * time.Millisecond))
				buf := make([]byte, 256)
				c.Read(buf)
				c.Close()
			}()
		}
	}()
}

func (s *StuckTarget) Close() {
	s.mu.Lock()
	defer s.mu.Unlock()
	if s.closed {
		return
	}
	s.closed = true
	for _, c := range s.fillers {
		c.Close()
	}
	if s.ln != nil {
		s.ln.Close()
	}
	if s.fd >= 0 {
		syscall.Close(s.fd)
	}
}
