//go:build verif

package vlib

import (
	"fmt"
	"io"
	"net"
	"os"
	"strings"
	"sync"
	"time"

	"github.com/bokysan/socketace/v2/internal/client/listener"
	"github.com/bokysan/socketace/v2/internal/client/upstream"
	clientCmd "github.com/bokysan/socketace/v2/internal/commands/client"
	serverCmd "github.com/bokysan/socketace/v2/internal/commands/server"
	"github.com/bokysan/socketace/v2/internal/server"
	"github.com/bokysan/socketace/v2/internal/socketace"
	"github.com/bokysan/socketace/v2/internal/streams"
	"github.com/bokysan/socketace/v2/internal/util/addr"
	"github.com/bokysan/socketace/v2/internal/util/cert"
)

// Carrier kinds understood by the pair builder.
const (
	CarTCP      = "tcp"
	CarTCPTLS   = "tcp+tls"
	CarUnix     = "unix"
	CarUnixTLS  = "unix+tls"
	CarHTTP     = "http"
	CarHTTPS    = "https"
	CarStdio    = "stdio"
	CarStdioTLS = "stdio+tls"
	CarUDP      = "udp"
	CarDNS      = "dns"
)

// ChannelSpec names a channel and the target it leads to.
type ChannelSpec struct {
	Name   string
	Target string // URL, e.g. tcp://127.0.0.1:1234
}

// ListenerSpec describes one client listener.
type ListenerSpec struct {
	Channel string
	Stdio   bool   // standard-stream listener (one logical connection for the listener's life)
	Forward string // optional direct forward URL
}

// PairConfig describes one client/server pair.
type PairConfig struct {
	Carrier        string
	ServerCert     *KeyPair // certificate of the server (TLS carrier or StartTLS offer)
	ServerCA       string   // CA PEM configured on the server (client-certificate verification)
	RequireClient  bool
	ClientCert     *KeyPair
	ClientCA       string // CA PEM configured on the client
	ClientInsecure bool
	MustSecure     bool
	Secret         string // UDP shared secret (server side)
	ClientSecret   string // UDP shared secret (client side)
	Channels       []ChannelSpec
	AllowList      []string
	Listeners      []ListenerSpec
	ViaRelay       bool                // put a recording relay between client and server (tcp, http(s), udp carriers)
	HostSpelling   string              // "127.0.0.1" (default), "localhost", or "(none)" for a host-less upstream URL
	ServerScheme   string              // other documented spelling of the server's address scheme (e.g. "http+tls", "wss" for an https carrier)
	Domain         string              // DNS tunnel domain
	ExtraUpstreams []upstream.Upstream // tried before the pair's own upstream (C16)
	// ClientScheme: other documented spelling of the upstream's address scheme ("ws" for an http carrier, "wss" for https)
	ClientScheme string
	// SpareUpstream: the client's fail-over list names the server twice (an endpoint behind the first that is just
	// as reachable and, as long as the first works, never needed)
	SpareUpstream bool
	HTTPEndpoints []EndpointSpec // websocket paths of an http(s) server (default: /ws/all with AllowList)
	HTTPPath      string         // path the client connects to (default /ws/all)
}

// EndpointSpec is one websocket path with its own allow-list.
type EndpointSpec struct {
	Path  string
	Allow []string
}

// Pair is a running client/server pair.
type Pair struct {
	Cfg      PairConfig
	Server   *serverCmd.Command
	Client   *clientCmd.Command
	Listen   map[string]string   // channel -> host:port of the client's socket listener
	StdioApp map[string]net.Conn // channel -> application end of a stdio listener
	Relay    *Relay
	URelay   *UDPRelay
	PipeTap  *PipeTap
	SrvPort  int
	intr     chan os.Signal
	files    []io.Closer
	unixPath string
	once     sync.Once
}

func certConfig(kp *KeyPair, ca string) cert.Config {
	c := cert.Config{CaCertificate: ca}
	if kp != nil {
		c.Certificate = kp.CertPEM
		c.PrivateKey = kp.KeyPEM
	}
	return c
}

// osPipeConn joins an *os.File reader and writer into a streams.Connection (standard-stream style).
func osPipe() (r *os.File, w *os.File) {
	r, w, err := os.Pipe()
	if err != nil {
		panic(err)
	}
	return r, w
}

var unixSeq int

// BuildServer constructs (without starting) the server command for cfg. It returns the upstream the client
// has to use as well.
func buildEndpoints(cfg *PairConfig, p *Pair) (server.Server, upstream.Upstream, error) {
	sc := cert.ServerConfig{Config: certConfig(cfg.ServerCert, cfg.ServerCA), RequireClientCert: cfg.RequireClient}
	host := cfg.HostSpelling
	if host == "" {
		host = "127.0.0.1"
	}
	if host == "(none)" {
		host = "" // an upstream address without a host part, e.g. tcp://:1234
	}
	switch cfg.Carrier {
	case CarTCP, CarTCPTLS:
		port := Port()
		p.SrvPort = port
		srv := &server.SocketServer{ServerConfig: sc, Address: addr.MustParseAddress(fmt.Sprintf("%s://127.0.0.1:%d", cfg.Carrier, port)), Channels: cfg.AllowList}
		cport := port
		if cfg.ViaRelay {
			p.Relay = NewRelay(HostPort(port))
			cport = p.Relay.Port
		}
		up := &upstream.Socket{Address: addr.MustParseAddress(fmt.Sprintf("%s://%s:%d", cfg.Carrier, host, cport))}
		return srv, up, nil
	case CarUnix, CarUnixTLS:
		portMu.Lock()
		unixSeq++
		name := fmt.Sprintf("v%d-%d.sock", os.Getpid(), unixSeq)
		portMu.Unlock()
		os.Remove(name)
		p.unixPath = name
		a := addr.MustParseAddress(fmt.Sprintf("%s://%s", cfg.Carrier, name))
		srv := &server.SocketServer{ServerConfig: sc, Address: a, Channels: cfg.AllowList}
		up := &upstream.Socket{Address: a}
		return srv, up, nil
	case CarHTTP, CarHTTPS:
		port := Port()
		p.SrvPort = port
		eps := server.WebsocketEndpointList{}
		for _, e := range cfg.HTTPEndpoints {
			eps = append(eps, server.HttpEndpoint{Endpoint: e.Path, Channels: e.Allow})
		}
		if len(eps) == 0 {
			eps = server.WebsocketEndpointList{server.HttpEndpoint{Endpoint: "/ws/all", Channels: cfg.AllowList}}
		}
		path := cfg.HTTPPath
		if path == "" {
			path = "/ws/all"
		}
		sscheme := cfg.Carrier
		if cfg.ServerScheme != "" {
			sscheme = cfg.ServerScheme
		}
		srv := &server.HttpServer{ServerConfig: sc, Address: addr.MustParseAddress(fmt.Sprintf("%s://127.0.0.1:%d", sscheme, port)), Endpoints: eps}
		cport := port
		if cfg.ViaRelay {
			p.Relay = NewRelay(HostPort(port))
			cport = p.Relay.Port
		}
		cscheme := cfg.Carrier
		if cfg.ClientScheme != "" {
			cscheme = cfg.ClientScheme
		}
		up := &upstream.Http{Address: addr.MustParseAddress(fmt.Sprintf("%s://%s:%d%s", cscheme, host, cport, path))}
		return srv, up, nil
	case CarStdio, CarStdioTLS:
		c2sR, c2sW := osPipe()
		s2cR, s2cW := osPipe()
		p.files = append(p.files, c2sR, c2sW, s2cR, s2cW)
		if cfg.ViaRelay {
			// recording tap on the standard-stream carrier: client -> tap -> server and back
			p.PipeTap = &PipeTap{}
			c2sR2, c2sW2 := osPipe()
			s2cR2, s2cW2 := osPipe()
			p.files = append(p.files, c2sR2, c2sW2, s2cR2, s2cW2)
			go p.PipeTap.copy(c2sR, c2sW2, true)
			go p.PipeTap.copy(s2cR, s2cW2, false)
			c2sR, s2cR = c2sR2, s2cR2
		}
		a := addr.MustParseAddress(cfg.Carrier + "://")
		srv := &server.IoServer{ServerConfig: sc, Address: a, Channels: cfg.AllowList, Input: c2sR, Output: s2cW}
		up := &upstream.InputOutput{Address: a, Input: s2cR, Output: c2sW}
		return srv, up, nil
	case CarUDP:
		port := Port()
		p.SrvPort = port
		surl := fmt.Sprintf("udp://127.0.0.1:%d", port)
		if cfg.Secret != "" {
			surl = fmt.Sprintf("udp://:%s@127.0.0.1:%d", cfg.Secret, port)
		}
		srv := &server.PacketServer{ServerConfig: sc, Address: addr.MustParseAddress(surl), Channels: cfg.AllowList}
		cport := port
		if cfg.ViaRelay {
			p.URelay = NewUDPRelay(HostPort(port))
			cport = p.URelay.Port
		}
		curl := fmt.Sprintf("udp://%s:%d", host, cport)
		if cfg.ClientSecret != "" {
			curl = fmt.Sprintf("udp://:%s@%s:%d", cfg.ClientSecret, host, cport)
		}
		up := &upstream.Packet{Address: addr.MustParseAddress(curl)}
		return srv, up, nil
	case CarDNS:
		port := Port()
		p.SrvPort = port
		dom := cfg.Domain
		if dom == "" {
			dom = "example.org"
		}
		srv := &server.DnsServer{Domain: dom, SocketServer: server.SocketServer{ServerConfig: sc, Address: addr.MustParseAddress(fmt.Sprintf("dns://127.0.0.1:%d", port)), Channels: cfg.AllowList}}
		cport := port
		if cfg.ViaRelay {
			p.URelay = NewUDPRelay(HostPort(port))
			cport = p.URelay.Port
		}
		up := &upstream.Dns{Address: addr.MustParseAddress(fmt.Sprintf("dns://%s?direct=false&dns=127.0.0.1:%d", dom, cport))}
		return srv, up, nil
	}
	return nil, nil, fmt.Errorf("unknown carrier %q", cfg.Carrier)
}

// StartPair builds and starts server and client. The caller must Close it.
func StartPair(cfg PairConfig) (*Pair, error) {
	p := &Pair{Cfg: cfg, Listen: map[string]string{}, StdioApp: map[string]net.Conn{}, intr: make(chan os.Signal, 1)}
	srv, up, err := buildEndpoints(&cfg, p)
	if err != nil {
		return nil, err
	}
	chans := server.Channels{}
	for _, c := range cfg.Channels {
		chans = append(chans, &server.NetworkChannel{AbstractChannel: server.AbstractChannel{
			ProtoName: addr.ProtoName{Name: c.Name}, Address: addr.MustParseAddress(c.Target)}})
	}
	p.Server = &serverCmd.Command{Channels: chans, Servers: server.Servers{srv}}

	ls := listener.Listeners{}
	for _, l := range cfg.Listeners {
		al := listener.AbstractListener{ProtoName: addr.ProtoName{Name: l.Channel}}
		if l.Forward != "" {
			f := addr.MustParseAddress(l.Forward)
			al.Forward = &f
		}
		if l.Stdio {
			appR, cliW := osPipe() // client listener writes -> application reads
			cliR, appW := osPipe() // application writes -> client listener reads
			p.files = append(p.files, appR, cliW, cliR, appW)
			al.Address = addr.MustParseAddress("stdio://")
			il := &listener.InputOutputListener{AbstractListener: al,
				InputOutput: streams.NewSimulatedConnection(streams.NewReadWriteCloser(cliR, cliW),
					&addr.StandardIOAddress{Address: "local"}, &addr.StandardIOAddress{Address: "remote"})}
			ls = append(ls, il)
			p.StdioApp[l.Channel] = streams.NewSimulatedConnection(streams.NewReadWriteCloser(appR, appW),
				&addr.StandardIOAddress{Address: "app"}, &addr.StandardIOAddress{Address: "client"})
		} else {
			port := Port()
			al.Address = addr.MustParseAddress(fmt.Sprintf("tcp://127.0.0.1:%d", port))
			ls = append(ls, &listener.SocketListener{AbstractListener: al})
			p.Listen[l.Channel] = HostPort(port)
		}
	}
	ups := append([]upstream.Upstream{}, cfg.ExtraUpstreams...)
	ups = append(ups, up)
	if cfg.SpareUpstream {
		if spare := p.UpstreamFor(); spare != nil {
			ups = append(ups, spare)
		}
	}
	p.Client = &clientCmd.Command{
		ClientConfig: cert.ClientConfig{Config: certConfig(cfg.ClientCert, cfg.ClientCA), InsecureSkipVerify: cfg.ClientInsecure},
		Upstream:     upstream.Upstreams{Data: ups},
		ListenList:   ls,
		Secure:       cfg.MustSecure,
	}
	if err := p.Server.Startup(p.intr); err != nil {
		p.Close()
		return nil, fmt.Errorf("server startup: %w", err)
	}
	if err := p.Client.Startup(p.intr); err != nil {
		p.Close()
		return nil, fmt.Errorf("client startup: %w", err)
	}
	return p, nil
}

// ExtraClient is an additional client process-equivalent talking to the same server.
type ExtraClient struct {
	Cmd    *clientCmd.Command
	Listen map[string]string
	intr   chan os.Signal
}

// UpstreamFor returns a fresh upstream object pointing at the pair's server (through the relay if any).
func (p *Pair) UpstreamFor() upstream.Upstream {
	cfg := p.Cfg
	host := cfg.HostSpelling
	if host == "" {
		host = "127.0.0.1"
	}
	if host == "(none)" {
		host = ""
	}
	port := p.SrvPort
	if p.Relay != nil {
		port = p.Relay.Port
	}
	if p.URelay != nil {
		port = p.URelay.Port
	}
	switch cfg.Carrier {
	case CarTCP, CarTCPTLS:
		return &upstream.Socket{Address: addr.MustParseAddress(fmt.Sprintf("%s://%s:%d", cfg.Carrier, host, port))}
	case CarUnix, CarUnixTLS:
		return &upstream.Socket{Address: addr.MustParseAddress(fmt.Sprintf("%s://%s", cfg.Carrier, p.unixPath))}
	case CarHTTP, CarHTTPS:
		path := cfg.HTTPPath
		if path == "" {
			path = "/ws/all"
		}
		scheme := cfg.Carrier
		if cfg.ClientScheme != "" {
			scheme = cfg.ClientScheme
		}
		return &upstream.Http{Address: addr.MustParseAddress(fmt.Sprintf("%s://%s:%d%s", scheme, host, port, path))}
	case CarUDP:
		curl := fmt.Sprintf("udp://%s:%d", host, port)
		if cfg.ClientSecret != "" {
			curl = fmt.Sprintf("udp://:%s@%s:%d", cfg.ClientSecret, host, port)
		}
		return &upstream.Packet{Address: addr.MustParseAddress(curl)}
	case CarDNS:
		dom := cfg.Domain
		if dom == "" {
			dom = "example.org"
		}
		return &upstream.Dns{Address: addr.MustParseAddress(fmt.Sprintf("dns://%s?direct=false&dns=127.0.0.1:%d", dom, port))}
	}
	return nil
}

// AddClient starts another client (own listeners for the given channels) against the same server.
func (p *Pair) AddClient(channels ...string) (*ExtraClient, error) {
	up := p.UpstreamFor()
	if up == nil {
		return nil, fmt.Errorf("carrier %q cannot have a second client", p.Cfg.Carrier)
	}
	ec := &ExtraClient{Listen: map[string]string{}, intr: make(chan os.Signal, 1)}
	ls := listener.Listeners{}
	for _, ch := range channels {
		port := Port()
		ls = append(ls, &listener.SocketListener{AbstractListener: listener.AbstractListener{ProtoName: addr.ProtoName{Name: ch},
			Address: addr.MustParseAddress(fmt.Sprintf("tcp://127.0.0.1:%d", port))}})
		ec.Listen[ch] = HostPort(port)
	}
	ec.Cmd = &clientCmd.Command{
		ClientConfig: cert.ClientConfig{Config: certConfig(p.Cfg.ClientCert, p.Cfg.ClientCA), InsecureSkipVerify: p.Cfg.ClientInsecure},
		Upstream:     upstream.Upstreams{Data: []upstream.Upstream{up}},
		ListenList:   ls,
		Secure:       p.Cfg.MustSecure,
	}
	if err := ec.Cmd.Startup(ec.intr); err != nil {
		return nil, err
	}
	return ec, nil
}

func (ec *ExtraClient) Dial(channel string) (net.Conn, error) {
	return net.DialTimeout("tcp", ec.Listen[channel], 5*time.Second)
}

func (ec *ExtraClient) Close() {
	defer func() { recover() }()
	_ = ec.Cmd.Shutdown()
}

// UnixPath is the socket file of a unix carrier.
func (p *Pair) UnixPath() string { return p.unixPath }

// Dial opens a logical connection for channel through the client's listener.
func (p *Pair) Dial(channel string) (net.Conn, error) {
	if c, ok := p.StdioApp[channel]; ok {
		return c, nil
	}
	a, ok := p.Listen[channel]
	if !ok {
		return nil, fmt.Errorf("no listener for channel %q", channel)
	}
	return net.DialTimeout("tcp", a, 5*time.Second)
}

// Close shuts both ends down; errors are ignored (shutdown behaviour is the subject of C14, not of fixtures).
func (p *Pair) Close() {
	p.once.Do(func() {
		// a shutdown that hangs (that can be the defect under test) must not wedge the harness: bounded
		bounded := func(f func()) {
			done := make(chan struct{})
			go func() {
				defer close(done)
				defer func() { recover() }()
				f()
			}()
			select {
			case <-done:
			case <-time.After(8 * time.Second):
			}
		}
		bounded(func() {
			if p.Client != nil {
				_ = p.Client.Shutdown()
			}
		})
		bounded(func() {
			if p.Server != nil {
				_ = p.Server.Shutdown()
			}
		})
		if p.Relay != nil {
			p.Relay.Close()
		}
		if p.URelay != nil {
			p.URelay.Close()
		}
		for _, f := range p.files {
			f.Close()
		}
		if p.unixPath != "" {
			os.Remove(p.unixPath)
		}
	})
}

// PipeTap records what crosses a standard-stream carrier.
type PipeTap struct {
	mu       sync.Mutex
	up, down []byte
}

func (t *PipeTap) copy(r io.Reader, w io.WriteCloser, up bool) {
	buf := make([]byte, 64*1024)
	for {
		n, err := r.Read(buf)
		if n > 0 {
			t.mu.Lock()
			if up {
				t.up = append(t.up, buf[:n]...)
			} else {
				t.down = append(t.down, buf[:n]...)
			}
			t.mu.Unlock()
			if _, werr := w.Write(buf[:n]); werr != nil {
				return
			}
		}
		if err != nil {
			w.Close()
			return
		}
	}
}

func (t *PipeTap) Recorded() (up, down []byte) {
	t.mu.Lock()
	defer t.mu.Unlock()
	return append([]byte(nil), t.up...), append([]byte(nil), t.down...)
}

// WireRecorded returns what the carrier observer saw in both directions (nil,nil,false without an observer).
func (p *Pair) WireRecorded() (up, down []byte, ok bool) {
	switch {
	case p.Relay != nil:
		u, d := p.Relay.Recorded()
		return u, d, true
	case p.URelay != nil:
		u, d := p.URelay.Recorded()
		return u, d, true
	case p.PipeTap != nil:
		u, d := p.PipeTap.Recorded()
		return u, d, true
	}
	return nil, nil, false
}

// ClientConnOf digs the socketace client connection out of an established upstream (nil if there is none).
func ClientConnOf(u upstream.Upstream) *socketace.ClientConnection {
	var c interface{}
	switch v := u.(type) {
	case *upstream.Socket:
		c = v.Connection
	case *upstream.Http:
		c = v.Connection
	case *upstream.Packet:
		c = v.Connection
	case *upstream.InputOutput:
		c = v.Connection
	case *upstream.Dns:
		c = v.Connection
	}
	for i := 0; i < 12 && c != nil; i++ {
		if cc, ok := c.(*socketace.ClientConnection); ok {
			return cc
		}
		if un, ok := c.(streams.UnwrappedConnection); ok {
			c = un.Unwrap()
			continue
		}
		if nc, ok := c.(*streams.NamedConnection); ok {
			c = nc.Connection
			continue
		}
		return nil
	}
	return nil
}

// IsBindError recognises a start-up failure caused by a port clash (counted inconclusive, never a verdict).
func IsBindError(err error) bool {
	return err != nil && (strings.Contains(err.Error(), "address already in use") || strings.Contains(err.Error(), "bind:"))
}
