//go:build verif

package vlib

import "sync"

// miekg/dns' handler registration is process-global and socketace's DNS server start sleeps one second, so at
// most one end-to-end DNS pair lives in a process at a time; it is reused across cases and rebuilt after any
// failure (so that shrinking never runs against a broken environment).

var (
	dnsPairMu  sync.Mutex
	dnsPairKey string
	dnsPairCur *Pair
)

// SharedDNSPair returns the pair registered under key, building it (and closing any other) when needed. The
// caller must call release(failed) when done with the case; it holds a process-wide lock in between.
func SharedDNSPair(key string, build func() (*Pair, error)) (*Pair, func(failed bool), error) {
	dnsPairMu.Lock()
	if dnsPairCur != nil && dnsPairKey != key {
		dnsPairCur.Close()
		dnsPairCur = nil
	}
	if dnsPairCur == nil {
		p, err := build()
		if err != nil {
			dnsPairMu.Unlock()
			return nil, nil, err
		}
		dnsPairCur, dnsPairKey = p, key
	}
	p := dnsPairCur
	return p, func(failed bool) {
		if failed {
			p.Close()
			if dnsPairCur == p {
				dnsPairCur = nil
			}
		}
		dnsPairMu.Unlock()
	}, nil
}
