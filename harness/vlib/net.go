//go:build verif

package vlib

import (
	"bytes"
	"fmt"
	"io"
	"net"
	"os"
	"sync"
	"sync/atomic"
	"syscall"
	"time"
)

// ---- port allocator -------------------------------------------------------------------------------------
// socketace servers bind the address they are given and never report the bound port, so ports are handed out
// from a per-process slice of 20000-32000 (below the ephemeral range), bind-tested first, wrapping around.

var (
	portMu   sync.Mutex
	portNext int
	portLo   int
	portHi   int
)

// initPorts claims a block of ports that no other harness process on this machine uses at the same time (exclusive
// advisory lock on a file per block, held for the life of the process): checks that run concurrently - several
// shards, a background thorough run from a snapshot of /verif, a scratch-tree run - can then never dial or rebind each
// other's ports. The lock files live in one machine-wide directory (created on demand) so that copies of /verif share them.
const (
	portBlockSize = 250
	portBlocks    = 48 // 20000..31999
)

var portBlock = -1

func claimBlock(start int) bool {
	dir := os.TempDir() + "/verif-portlocks"
	_ = os.MkdirAll(dir, 0o777)
	for i := 0; i < portBlocks; i++ {
		b := (start + i) % portBlocks
		if b == portBlock {
			continue
		}
		f, err := os.OpenFile(fmt.Sprintf("%s/block-%02d.lock", dir, b), os.O_CREATE|os.O_RDWR, 0o666)
		if err != nil {
			continue
		}
		if err := syscall.Flock(int(f.Fd()), syscall.LOCK_EX|syscall.LOCK_NB); err != nil {
			f.Close()
			continue
		}
		if portLockFile != nil {
			portLockFile.Close() // gives the previous block back
		}
		portLockFile = f // keep it open: the lock lives as long as the process
		portBlock = b
		portLo = 20000 + b*portBlockSize
		portHi = portLo + portBlockSize
		portNext = portLo
		return true
	}
	return false
}

func initPorts() {
	if claimBlock(os.Getpid() % portBlocks) {
		return
	}
	// every block is taken: fall back to a pid-derived block (bind tests still apply)
	portLo = 20000 + (os.Getpid()%portBlocks)*portBlockSize
	portHi = portLo + portBlockSize
	portNext = portLo
}

var portLockFile *os.File

// Port returns a loop-back port on which both TCP and UDP could be bound a moment ago. When a whole block has no
// bindable port left (code under test that does not release its sockets can use a block up) the next free block is
// claimed.
func Port() int {
	portMu.Lock()
	defer portMu.Unlock()
	if portLo == 0 {
		initPorts()
	}
	for switches := 0; switches <= portBlocks; switches++ {
		for tries := 0; tries < portBlockSize; tries++ {
			p := portNext
			portNext++
			if portNext >= portHi {
				portNext = portLo
			}
			l, err := net.Listen("tcp", fmt.Sprintf("127.0.0.1:%d", p))
			if err != nil {
				continue
			}
			u, err := net.ListenPacket("udp", fmt.Sprintf("127.0.0.1:%d", p))
			if err != nil {
				l.Close()
				continue
			}
			l.Close()
			u.Close()
			return p
		}
		if !claimBlock((portBlock + 1) % portBlocks) {
			break
		}
	}
	panic("vlib: no free port in harness range")
}

func HostPort(p int) string { return fmt.Sprintf("127.0.0.1:%d", p) }

// ---- scripted / recording target ---------------------------------------------------------------------------

// TargetConn is one connection accepted by a Target.
type TargetConn struct {
	Conn net.Conn
	Idx  int
	T    *Target

	mu       sync.Mutex
	received bytes.Buffer
	eof      bool
	readErr  error
	Done     chan struct{} // closed when the handler returns
}

// Received returns a copy of everything read from the connection so far.
func (tc *TargetConn) Received() []byte {
	tc.mu.Lock()
	defer tc.mu.Unlock()
	return append([]byte(nil), tc.received.Bytes()...)
}

func (tc *TargetConn) ReceivedLen() int {
	tc.mu.Lock()
	defer tc.mu.Unlock()
	return tc.received.Len()
}

// SawEOF reports whether the read side has terminated (EOF or error) and the error.
func (tc *TargetConn) SawEOF() (bool, error) {
	tc.mu.Lock()
	defer tc.mu.Unlock()
	return tc.eof, tc.readErr
}

// ReadLoop reads until EOF/error, recording everything. limit<0 means no limit; otherwise it returns after
// limit bytes were received.
func (tc *TargetConn) ReadLoop(limit int) {
	buf := make([]byte, 64*1024)
	for {
		if limit >= 0 && tc.ReceivedLen() >= limit {
			return
		}
		n, err := tc.Conn.Read(buf)
		tc.mu.Lock()
		tc.received.Write(buf[:n])
		if err != nil {
			tc.eof = true
			if err != io.EOF {
				tc.readErr = err
			}
		}
		tc.mu.Unlock()
		if err != nil {
			return
		}
	}
}

// WriteParts writes data in the given piece sizes (remaining bytes in one last piece), with an optional gap.
func WriteParts(w io.Writer, data []byte, parts []int, gap time.Duration) error {
	for _, p := range parts {
		if len(data) == 0 {
			break
		}
		if p <= 0 {
			p = 1
		}
		if p > len(data) {
			p = len(data)
		}
		if _, err := w.Write(data[:p]); err != nil {
			return err
		}
		data = data[p:]
		if gap > 0 {
			time.Sleep(gap)
		}
	}
	if len(data) > 0 {
		if _, err := w.Write(data); err != nil {
			return err
		}
	}
	return nil
}

// Target is a TCP service standing in for a channel's target.
type Target struct {
	Name    string
	Port    int
	ln      net.Listener
	Handler func(tc *TargetConn)

	mu      sync.Mutex
	conns   []*TargetConn
	accepts int32
	newConn chan *TargetConn
	closed  int32
	unix    string // socket path of a unix-domain target
}

var unixTargetSeq int32

// NewUnixTarget starts a target on a unix-domain stream socket (its kernel buffering is an order of magnitude smaller
// than a loop-back TCP connection's, so unread data really waits in the tunnel).
func NewUnixTarget(name string, handler func(tc *TargetConn)) *Target {
	path := fmt.Sprintf("%s/verif-tgt-%d-%d.sock", os.TempDir(), os.Getpid(), atomic.AddInt32(&unixTargetSeq, 1))
	os.Remove(path)
	ln, err := net.Listen("unix", path)
	if err != nil {
		panic("vlib: cannot start unix target: " + err.Error())
	}
	t := &Target{Name: name, ln: ln, Handler: handler, newConn: make(chan *TargetConn, 1024), unix: path}
	go t.loop()
	return t
}

// NewTarget starts a target; handler runs in its own goroutine per accepted connection.
func NewTarget(name string, handler func(tc *TargetConn)) *Target {
	var ln net.Listener
	var port int
	for i := 0; i < 50; i++ {
		port = Port()
		l, err := net.Listen("tcp", HostPort(port))
		if err == nil {
			ln = l
			break
		}
	}
	if ln == nil {
		panic("vlib: cannot start target")
	}
	t := &Target{Name: name, Port: port, ln: ln, Handler: handler, newConn: make(chan *TargetConn, 1024)}
	go t.loop()
	return t
}

func (t *Target) Addr() string { return HostPort(t.Port) }
func (t *Target) URL() string {
	if t.unix != "" {
		return "unix://" + t.unix
	}
	return "tcp://" + t.Addr()
}

func (t *Target) loop() {
	for {
		c, err := t.ln.Accept()
		if err != nil {
			return
		}
		t.mu.Lock()
		tc := &TargetConn{Conn: c, Idx: len(t.conns), T: t, Done: make(chan struct{})}
		t.conns = append(t.conns, tc)
		h := t.Handler
		t.mu.Unlock()
		atomic.AddInt32(&t.accepts, 1)
		select {
		case t.newConn <- tc:
		default:
		}
		go func() {
			defer close(tc.Done)
			if h != nil {
				h(tc)
			}
		}()
	}
}

// Accepts is the number of connections accepted so far.
func (t *Target) Accepts() int { return int(atomic.LoadInt32(&t.accepts)) }

// WaitConn waits for the next accepted connection.
func (t *Target) WaitConn(d time.Duration) *TargetConn {
	select {
	case tc := <-t.newConn:
		return tc
	case <-time.After(d):
		return nil
	}
}

// DrainNew forgets queued notifications of accepted connections.
func (t *Target) DrainNew() {
	for {
		select {
		case <-t.newConn:
		default:
			return
		}
	}
}

func (t *Target) Conns() []*TargetConn {
	t.mu.Lock()
	defer t.mu.Unlock()
	return append([]*TargetConn(nil), t.conns...)
}

func (t *Target) SetHandler(h func(tc *TargetConn)) {
	t.mu.Lock()
	t.Handler = h
	t.mu.Unlock()
}

func (t *Target) Close() {
	if !atomic.CompareAndSwapInt32(&t.closed, 0, 1) {
		return
	}
	t.ln.Close()
	for _, c := range t.Conns() {
		c.Conn.Close()
	}
}

// EchoHandler echoes until EOF.
func EchoHandler(tc *TargetConn) {
	defer tc.Conn.Close()
	buf := make([]byte, 32*1024)
	for {
		n, err := tc.Conn.Read(buf)
		if n > 0 {
			tc.mu.Lock()
			tc.received.Write(buf[:n])
			tc.mu.Unlock()
			if _, werr := tc.Conn.Write(buf[:n]); werr != nil {
				return
			}
		}
		if err != nil {
			tc.mu.Lock()
			tc.eof = true
			tc.mu.Unlock()
			return
		}
	}
}

// BannerEchoHandler sends "<name>\n" first, then echoes. Used to check routing.
func BannerEchoHandler(tc *TargetConn) {
	if _, err := tc.Conn.Write([]byte(tc.T.Name + "\n")); err != nil {
		tc.Conn.Close()
		return
	}
	EchoHandler(tc)
}

// ---- recording TCP relay -----------------------------------------------------------------------------------

// Relay forwards TCP connections to a backend, records both directions, can cut and inject.
type Relay struct {
	Port    int
	Backend string
	ln      net.Listener

	mu     sync.Mutex
	up     bytes.Buffer // client -> server
	down   bytes.Buffer // server -> client
	conns  []*relayConn
	total  int32
	closed int32
	// DelayUp/DelayDown are applied before forwarding each chunk.
	DelayUp, DelayDown time.Duration
	// Blackhole: accept but never forward (silent upstream)
	Blackhole bool
	isDown    int32
}

// SetDown makes the relay close every new connection at once (the far end is unreachable) until switched back.
func (r *Relay) SetDown(down bool) {
	v := int32(0)
	if down {
		v = 1
	}
	atomic.StoreInt32(&r.isDown, v)
}

type relayConn struct {
	c, b net.Conn
}

func NewRelay(backend string) *Relay {
	var ln net.Listener
	var port int
	for i := 0; i < 50; i++ {
		port = Port()
		l, err := net.Listen("tcp", HostPort(port))
		if err == nil {
			ln = l
			break
		}
	}
	if ln == nil {
		panic("vlib: cannot start relay")
	}
	r := &Relay{Port: port, Backend: backend, ln: ln}
	go r.loop()
	return r
}

func (r *Relay) Addr() string { return HostPort(r.Port) }

func (r *Relay) loop() {
	for {
		c, err := r.ln.Accept()
		if err != nil {
			return
		}
		atomic.AddInt32(&r.total, 1)
		if atomic.LoadInt32(&r.isDown) != 0 {
			c.Close()
			continue
		}
		if r.Blackhole {
			r.mu.Lock()
			r.conns = append(r.conns, &relayConn{c: c})
			r.mu.Unlock()
			continue
		}
		b, err := net.Dial("tcp", r.Backend)
		if err != nil {
			c.Close()
			continue
		}
		rc := &relayConn{c: c, b: b}
		r.mu.Lock()
		r.conns = append(r.conns, rc)
		r.mu.Unlock()
		go r.pump(c, b, &r.up, &r.DelayUp)
		go r.pump(b, c, &r.down, &r.DelayDown)
	}
}

func (r *Relay) pump(src, dst net.Conn, rec *bytes.Buffer, delay *time.Duration) {
	buf := make([]byte, 64*1024)
	for {
		n, err := src.Read(buf)
		if n > 0 {
			r.mu.Lock()
			rec.Write(buf[:n])
			d := *delay
			r.mu.Unlock()
			if d > 0 {
				time.Sleep(d)
			}
			if _, werr := dst.Write(buf[:n]); werr != nil {
				src.Close()
				return
			}
		}
		if err != nil {
			// propagate half close as full close: good enough for a carrier
			dst.Close()
			return
		}
	}
}

// Connections is the number of physical connections accepted so far.
func (r *Relay) Connections() int { return int(atomic.LoadInt32(&r.total)) }

// Recorded returns copies of both directions.
func (r *Relay) Recorded() (up, down []byte) {
	r.mu.Lock()
	defer r.mu.Unlock()
	return append([]byte(nil), r.up.Bytes()...), append([]byte(nil), r.down.Bytes()...)
}

// Cut closes all current carrier connections (rst=true uses SO_LINGER 0).
func (r *Relay) Cut(rst bool) {
	r.mu.Lock()
	cs := r.conns
	r.conns = nil
	r.mu.Unlock()
	for _, rc := range cs {
		for _, c := range []net.Conn{rc.c, rc.b} {
			if c == nil {
				continue
			}
			if tc, ok := c.(*net.TCPConn); ok && rst {
				tc.SetLinger(0)
			}
			c.Close()
		}
	}
}

// InjectDown writes raw bytes to the client side of every current connection.
func (r *Relay) InjectDown(b []byte) {
	r.mu.Lock()
	cs := append([]*relayConn(nil), r.conns...)
	r.mu.Unlock()
	for _, rc := range cs {
		rc.c.Write(b)
	}
}

// InjectUp writes raw bytes to the server side of every current connection.
func (r *Relay) InjectUp(b []byte) {
	r.mu.Lock()
	cs := append([]*relayConn(nil), r.conns...)
	r.mu.Unlock()
	for _, rc := range cs {
		if rc.b != nil {
			rc.b.Write(b)
		}
	}
}

func (r *Relay) Close() {
	if !atomic.CompareAndSwapInt32(&r.closed, 0, 1) {
		return
	}
	r.ln.Close()
	r.Cut(false)
}

// ---- recording UDP relay (one client at a time) ---------------------------------------------------------------

type UDPRelay struct {
	Port    int
	pc      net.PacketConn
	backend *net.UDPAddr
	mu      sync.Mutex
	up      bytes.Buffer
	down    bytes.Buffer
	client  net.Addr
	bconn   *net.UDPConn
	closed  int32
	Drop    bool
}

func NewUDPRelay(backend string) *UDPRelay {
	ba, err := net.ResolveUDPAddr("udp", backend)
	if err != nil {
		panic(err)
	}
	var pc net.PacketConn
	var port int
	for i := 0; i < 50; i++ {
		port = Port()
		p, err := net.ListenPacket("udp", HostPort(port))
		if err == nil {
			pc = p
			break
		}
	}
	if pc == nil {
		panic("vlib: cannot start udp relay")
	}
	bc, err := net.DialUDP("udp", nil, ba)
	if err != nil {
		panic(err)
	}
	r := &UDPRelay{Port: port, pc: pc, backend: ba, bconn: bc}
	go r.upLoop()
	go r.downLoop()
	return r
}

func (r *UDPRelay) Addr() string { return HostPort(r.Port) }

func (r *UDPRelay) upLoop() {
	buf := make([]byte, 65536)
	for {
		n, a, err := r.pc.ReadFrom(buf)
		if err != nil {
			return
		}
		r.mu.Lock()
		r.client = a
		r.up.Write(buf[:n])
		drop := r.Drop
		r.mu.Unlock()
		if !drop {
			r.bconn.Write(buf[:n])
		}
	}
}

func (r *UDPRelay) downLoop() {
	buf := make([]byte, 65536)
	for {
		n, err := r.bconn.Read(buf)
		if err != nil {
			if atomic.LoadInt32(&r.closed) != 0 {
				return
			}
			time.Sleep(5 * time.Millisecond)
			continue
		}
		r.mu.Lock()
		c := r.client
		r.down.Write(buf[:n])
		drop := r.Drop
		r.mu.Unlock()
		if c != nil && !drop {
			r.pc.WriteTo(buf[:n], c)
		}
	}
}

func (r *UDPRelay) Recorded() (up, down []byte) {
	r.mu.Lock()
	defer r.mu.Unlock()
	return append([]byte(nil), r.up.Bytes()...), append([]byte(nil), r.down.Bytes()...)
}

func (r *UDPRelay) SetDrop(d bool) {
	r.mu.Lock()
	r.Drop = d
	r.mu.Unlock()
}

func (r *UDPRelay) Close() {
	if !atomic.CompareAndSwapInt32(&r.closed, 0, 1) {
		return
	}
	r.pc.Close()
	r.bconn.Close()
}

// ReadFullTimeout reads exactly n bytes from c or stops at the deadline / EOF; returns what was read.
func ReadFullTimeout(c net.Conn, n int, d time.Duration) ([]byte, error) {
	out := make([]byte, 0, n)
	buf := make([]byte, 64*1024)
	deadline := time.Now().Add(d)
	for len(out) < n {
		c.SetReadDeadline(deadline)
		want := n - len(out)
		if want > len(buf) {
			want = len(buf)
		}
		k, err := c.Read(buf[:want])
		out = append(out, buf[:k]...)
		if err != nil {
			c.SetReadDeadline(time.Time{})
			return out, err
		}
	}
	c.SetReadDeadline(time.Time{})
	return out, nil
}
