//go:build verif

package vlib

import (
	"testing"

	"github.com/bokysan/socketace/v2/internal/zzverif/vcore"
)

// The recorder, known-findings matcher, log tap and payload helpers live in vcore (no socketace dependencies, so
// in-package harnesses can import them without an import cycle); vlib re-exports them.

var (
	Rec = vcore.Rec
	Tap = vcore.Tap
)

type KnownFinding = vcore.KnownFinding

func Main(m *testing.M)                 { vcore.Main(m) }
func IsKnown(prop, sig string) bool     { return vcore.IsKnown(prop, sig) }
func Tier() string                      { return vcore.Tier() }
func Thorough() bool                    { return vcore.Thorough() }
func Pick(q, t int) int                 { return vcore.Pick(q, t) }
func Shard() (int, int)                 { return vcore.Shard() }
func Seed() uint64                      { return vcore.Seed() }
func Hex(b []byte) string               { return vcore.Hex(b) }
func PRF(tag uint64, off, n int) []byte { return vcore.PRF(tag, off, n) }
func FirstDiff(a, b []byte) int         { return vcore.FirstDiff(a, b) }
func QuietLogs()                        { vcore.QuietLogs() }
func FailLater(msg string)              { vcore.FailLater(msg) }
