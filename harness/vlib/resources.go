//go:build verif

package vlib

import (
	"bytes"
	"fmt"
	"os"
	"runtime"
	"runtime/pprof"
	"sort"
	"strconv"
	"strings"
	"syscall"
	"time"
)

// Footprint is a snapshot of the process resources the checks look at.
type Footprint struct {
	Goroutines int
	FDs        int
}

func (f Footprint) String() string { return fmt.Sprintf("goroutines=%d fds=%d", f.Goroutines, f.FDs) }

// countFDs counts the open descriptors except anonymous pipes. socketace never creates a pipe itself (those of the
// standard-stream carriers are made and closed by the harness), but the Go runtime does: io.Copy between two TCP sockets
// uses splice(2) through pipes kept in a pool that is emptied by the garbage collector, so their number follows the
// collector's schedule, not the connections'.
func countFDs() int {
	d, err := os.Open("/proc/self/fd")
	if err != nil {
		return -1
	}
	names, _ := d.Readdirnames(-1)
	d.Close()
	n := 0
	for _, name := range names {
		l, err := os.Readlink("/proc/self/fd/" + name)
		if err != nil {
			continue // the directory handle itself, or closed meanwhile
		}
		if strings.HasPrefix(l, "pipe:[") {
			continue
		}
		n++
	}
	return n
}

// Measure returns the current footprint.
func Measure() Footprint {
	return Footprint{Goroutines: runtime.NumGoroutine(), FDs: countFDs()}
}

// Quiesce waits until the footprint has been stable for three samples (or max elapses) and returns it.
func Quiesce(max time.Duration) Footprint {
	deadline := time.Now().Add(max)
	last := Measure()
	stable := 0
	for time.Now().Before(deadline) {
		time.Sleep(100 * time.Millisecond)
		cur := Measure()
		if cur == last {
			stable++
			if stable >= 3 {
				return cur
			}
		} else {
			stable = 0
			last = cur
		}
	}
	return last
}

// QuiesceBelow waits until the footprint is <= limit in both components (or max elapses); returns the last one.
func QuiesceBelow(limit Footprint, max time.Duration) Footprint {
	deadline := time.Now().Add(max)
	cur := Measure()
	for time.Now().Before(deadline) {
		if cur.Goroutines <= limit.Goroutines && cur.FDs <= limit.FDs {
			return cur
		}
		time.Sleep(100 * time.Millisecond)
		cur = Measure()
	}
	return cur
}

// CPUSeconds returns user+system CPU time consumed by the process so far.
func CPUSeconds() float64 {
	var ru syscall.Rusage
	if err := syscall.Getrusage(syscall.RUSAGE_SELF, &ru); err != nil {
		return 0
	}
	tv := func(t syscall.Timeval) float64 { return float64(t.Sec) + float64(t.Usec)/1e6 }
	return tv(ru.Utime) + tv(ru.Stime)
}

// IdleCPU measures the fraction of one core the process uses while the harness does nothing for window.
func IdleCPU(window time.Duration) float64 {
	c0 := CPUSeconds()
	t0 := time.Now()
	time.Sleep(window)
	return (CPUSeconds() - c0) / time.Since(t0).Seconds()
}

// GoroutineSummary groups live goroutines by the first interesting frame (for counter-examples).
func GoroutineSummary(top int) []string {
	var buf bytes.Buffer
	_ = pprof.Lookup("goroutine").WriteTo(&buf, 2)
	counts := map[string]int{}
	for _, g := range strings.Split(buf.String(), "\n\n") {
		lines := strings.Split(g, "\n")
		key := ""
		for _, l := range lines[1:] {
			if strings.HasPrefix(l, "\t") || l == "" {
				continue
			}
			fn := l
			if i := strings.LastIndex(fn, "("); i > 0 {
				fn = fn[:i]
			}
			if strings.Contains(fn, "socketace") || strings.Contains(fn, "smux") || strings.Contains(fn, "kcp") || strings.Contains(fn, "websocket") || strings.Contains(fn, "zzverif") {
				key = fn
				break
			}
		}
		if key == "" && len(lines) > 1 {
			key = strings.TrimSpace(lines[1])
			if i := strings.LastIndex(key, "("); i > 0 {
				key = key[:i]
			}
		}
		counts[key]++
	}
	type kv struct {
		k string
		v int
	}
	var kvs []kv
	for k, v := range counts {
		kvs = append(kvs, kv{k, v})
	}
	sort.Slice(kvs, func(i, j int) bool {
		if kvs[i].v != kvs[j].v {
			return kvs[i].v > kvs[j].v
		}
		return kvs[i].k < kvs[j].k
	})
	var out []string
	for i, e := range kvs {
		if i >= top {
			break
		}
		out = append(out, fmt.Sprintf("%dx %s", e.v, e.k))
	}
	return out
}

// FDSummary describes the open descriptors by kind; sockets are listed with their state from /proc/net/tcp where the
// inode is found there ("socket:[inode] 127.0.0.1:port->127.0.0.1:port CLOSE_WAIT").
func FDSummary() []string {
	ents, err := os.ReadDir("/proc/self/fd")
	if err != nil {
		return nil
	}
	states := map[string]string{"01": "ESTABLISHED", "02": "SYN_SENT", "03": "SYN_RECV", "04": "FIN_WAIT1", "05": "FIN_WAIT2", "06": "TIME_WAIT", "07": "CLOSE", "08": "CLOSE_WAIT", "09": "LAST_ACK", "0A": "LISTEN", "0B": "CLOSING"}
	byInode := map[string]string{}
	for _, f := range []string{"/proc/net/tcp", "/proc/net/tcp6"} {
		b, err := os.ReadFile(f)
		if err != nil {
			continue
		}
		for _, line := range strings.Split(string(b), "\n")[1:] {
			fs := strings.Fields(line)
			if len(fs) < 10 {
				continue
			}
			port := func(a string) string {
				i := strings.LastIndexByte(a, ':')
				p, _ := strconv.ParseInt(a[i+1:], 16, 32)
				return strconv.Itoa(int(p))
			}
			byInode[fs[9]] = fmt.Sprintf("tcp :%s->:%s %s", port(fs[1]), port(fs[2]), states[fs[3]])
		}
	}
	count := map[string]int{}
	for _, e := range ents {
		l, err := os.Readlink("/proc/self/fd/" + e.Name())
		if err != nil {
			continue
		}
		if strings.HasPrefix(l, "socket:[") {
			ino := strings.TrimSuffix(strings.TrimPrefix(l, "socket:["), "]")
			if d, ok := byInode[ino]; ok {
				l = "socket " + d
			} else {
				l = "socket (not tcp)"
			}
		}
		count[l]++
	}
	var out []string
	for k, v := range count {
		out = append(out, fmt.Sprintf("%dx %s", v, k))
	}
	sort.Strings(out)
	return out
}

// DumpGoroutines writes all goroutine stacks to <run dir>/goroutines-<tag>.txt (diagnostics for a failing case).
func DumpGoroutines(tag string) string {
	dir := os.Getenv("VERIF_RUNDIR")
	if dir == "" {
		dir = "."
	}
	path := dir + "/goroutines-" + tag + ".txt"
	f, err := os.Create(path)
	if err != nil {
		return ""
	}
	defer f.Close()
	_ = pprof.Lookup("goroutine").WriteTo(f, 2)
	return path
}

// NonTCPSockets counts the open sockets that are not TCP sockets (datagram and unix sockets).
func NonTCPSockets() int {
	n := 0
	for _, l := range FDSummary() {
		if strings.HasSuffix(l, "x socket (not tcp)") {
			k, _ := strconv.Atoi(strings.SplitN(l, "x", 2)[0])
			n += k
		}
	}
	return n
}
