//go:build verif

package vlib

import (
	"bytes"
	"fmt"
	"os"
	"runtime"
	"runtime/pprof"
	"sort"
	"strings"
	"syscall"
	"time"
)

// Footprint is a snapshot of the process resources the checks look at.
type Footprint struct {
	Goroutines int
	FDs        int
}

func (f Footprint) String() string { return fmt.Sprintf("goroutines=%d fds=%d", f.Goroutines, f.FDs) }

func countFDs() int {
	d, err := os.Open("/proc/self/fd")
	if err != nil {
		return -1
	}
	defer d.Close()
	names, _ := d.Readdirnames(-1)
	return len(names) - 1 // minus the directory handle itself
}

// Measure returns the current footprint.
func Measure() Footprint {
	return Footprint{Goroutines: runtime.NumGoroutine(), FDs: countFDs()}
}

// Quiesce waits until the footprint has been stable for three samples (or max elapses) and returns it.
func Quiesce(max time.Duration) Footprint {
	deadline := time.Now().Add(max)
	last := Measure()
	stable := 0
	for time.Now().Before(deadline) {
		time.Sleep(100 * time.Millisecond)
		cur := Measure()
		if cur == last {
			stable++
			if stable >= 3 {
				return cur
			}
		} else {
			stable = 0
			last = cur
		}
	}
	return last
}

// QuiesceBelow waits until the footprint is <= limit in both components (or max elapses); returns the last one.
func QuiesceBelow(limit Footprint, max time.Duration) Footprint {
	deadline := time.Now().Add(max)
	cur := Measure()
	for time.Now().Before(deadline) {
		if cur.Goroutines <= limit.Goroutines && cur.FDs <= limit.FDs {
			return cur
		}
		time.Sleep(100 * time.Millisecond)
		cur = Measure()
	}
	return cur
}

// CPUSeconds returns user+system CPU time consumed by the process so far.
func CPUSeconds() float64 {
	var ru syscall.Rusage
	if err := syscall.Getrusage(syscall.RUSAGE_SELF, &ru); err != nil {
		return 0
	}
	tv := func(t syscall.Timeval) float64 { return float64(t.Sec) + float64(t.Usec)/1e6 }
	return tv(ru.Utime) + tv(ru.Stime)
}

// IdleCPU measures the fraction of one core the process uses while the harness does nothing for window.
func IdleCPU(window time.Duration) float64 {
	c0 := CPUSeconds()
	t0 := time.Now()
	time.Sleep(window)
	return (CPUSeconds() - c0) / time.Since(t0).Seconds()
}

// GoroutineSummary groups live goroutines by the first interesting frame (for counter-examples).
func GoroutineSummary(top int) []string {
	var buf bytes.Buffer
	_ = pprof.Lookup("goroutine").WriteTo(&buf, 2)
	counts := map[string]int{}
	for _, g := range strings.Split(buf.String(), "\n\n") {
		lines := strings.Split(g, "\n")
		key := ""
		for _, l := range lines[1:] {
			if strings.HasPrefix(l, "\t") || l == "" {
				continue
			}
			fn := l
			if i := strings.LastIndex(fn, "("); i > 0 {
				fn = fn[:i]
			}
			if strings.Contains(fn, "socketace") || strings.Contains(fn, "smux") || strings.Contains(fn, "kcp") || strings.Contains(fn, "websocket") || strings.Contains(fn, "zzverif") {
				key = fn
				break
			}
		}
		if key == "" && len(lines) > 1 {
			key = strings.TrimSpace(lines[1])
			if i := strings.LastIndex(key, "("); i > 0 {
				key = key[:i]
			}
		}
		counts[key]++
	}
	type kv struct {
		k string
		v int
	}
	var kvs []kv
	for k, v := range counts {
		kvs = append(kvs, kv{k, v})
	}
	sort.Slice(kvs, func(i, j int) bool {
		if kvs[i].v != kvs[j].v {
			return kvs[i].v > kvs[j].v
		}
		return kvs[i].k < kvs[j].k
	})
	var out []string
	for i, e := range kvs {
		if i >= top {
			break
		}
		out = append(out, fmt.Sprintf("%dx %s", e.v, e.k))
	}
	return out
}
