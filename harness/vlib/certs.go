//go:build verif

package vlib

import (
	"crypto/ecdsa"
	"crypto/elliptic"
	"crypto/rand"
	"crypto/x509"
	"crypto/x509/pkix"
	"encoding/pem"
	"math/big"
	"net"
	"os"
	"path/filepath"
	"sync"
	"time"
)

// CA is a certificate authority generated at start (key material is irrelevant to any verdict).
type CA struct {
	Cert    *x509.Certificate
	Key     *ecdsa.PrivateKey
	CertPEM string
}

// KeyPair is a PEM certificate + key as socketace's cert.Config takes them.
type KeyPair struct {
	CertPEM string
	KeyPEM  string
}

var serial int64 = 1000

func nextSerial() *big.Int { serial++; return big.NewInt(serial) }

func NewCA(cn string) *CA {
	key, err := ecdsa.GenerateKey(elliptic.P256(), rand.Reader)
	if err != nil {
		panic(err)
	}
	tpl := &x509.Certificate{
		SerialNumber:          nextSerial(),
		Subject:               pkix.Name{CommonName: cn},
		NotBefore:             time.Now().Add(-time.Hour),
		NotAfter:              time.Now().Add(24 * time.Hour),
		IsCA:                  true,
		KeyUsage:              x509.KeyUsageCertSign | x509.KeyUsageDigitalSignature,
		BasicConstraintsValid: true,
	}
	der, err := x509.CreateCertificate(rand.Reader, tpl, tpl, &key.PublicKey, key)
	if err != nil {
		panic(err)
	}
	c, _ := x509.ParseCertificate(der)
	return &CA{Cert: c, Key: key, CertPEM: string(pem.EncodeToMemory(&pem.Block{Type: "CERTIFICATE", Bytes: der}))}
}

// Issue creates a leaf certificate. dnsNames/ips are SANs; expired makes NotAfter lie in the past.
func (ca *CA) Issue(cn string, dnsNames []string, ips []string, client bool, expired bool) KeyPair {
	key, err := ecdsa.GenerateKey(elliptic.P256(), rand.Reader)
	if err != nil {
		panic(err)
	}
	tpl := &x509.Certificate{
		SerialNumber: nextSerial(),
		Subject:      pkix.Name{CommonName: cn},
		NotBefore:    time.Now().Add(-2 * time.Hour),
		NotAfter:     time.Now().Add(24 * time.Hour),
		KeyUsage:     x509.KeyUsageDigitalSignature,
		DNSNames:     dnsNames,
	}
	if expired {
		tpl.NotAfter = time.Now().Add(-time.Hour)
	}
	for _, ip := range ips {
		tpl.IPAddresses = append(tpl.IPAddresses, net.ParseIP(ip))
	}
	if client {
		tpl.ExtKeyUsage = []x509.ExtKeyUsage{x509.ExtKeyUsageClientAuth}
	} else {
		tpl.ExtKeyUsage = []x509.ExtKeyUsage{x509.ExtKeyUsageServerAuth}
	}
	der, err := x509.CreateCertificate(rand.Reader, tpl, ca.Cert, &key.PublicKey, ca.Key)
	if err != nil {
		panic(err)
	}
	kder, err := x509.MarshalPKCS8PrivateKey(key)
	if err != nil {
		panic(err)
	}
	return KeyPair{
		CertPEM: string(pem.EncodeToMemory(&pem.Block{Type: "CERTIFICATE", Bytes: der})),
		KeyPEM:  string(pem.EncodeToMemory(&pem.Block{Type: "PRIVATE KEY", Bytes: kder})),
	}
}

// PKI is the standard set of certificates used by the checks.
type PKI struct {
	CA, ForeignCA             *CA
	ServerGood                KeyPair // trusted, SANs localhost + 127.0.0.1
	ServerWrongHost           KeyPair // trusted, SAN other.example only
	ServerUntrusted           KeyPair // signed by the foreign CA, SANs localhost + 127.0.0.1
	ServerExpired             KeyPair // trusted, matching, expired
	ClientGood, ClientForeign KeyPair
	// ShadowCA has the same subject as CA but another key: a client whose certificate it signed is "signed by a
	// foreign CA" too, but - unlike ClientForeign, which a Go TLS client withholds because its issuer is not among
	// the acceptable CAs the server names - it is really presented to a server that asks for a certificate.
	ShadowCA      *CA
	ClientShadow  KeyPair
	ClientExpired KeyPair // signed by CA, expired
	OldCA         *CA     // an unrelated further CA, listed before CA in bundles ("old and new CA during a rotation")
	// PlatformCA stands for the certificate authorities the operating system trusts: after InstallPlatformTrust the
	// process' system pool holds exactly this one. Nobody configures it as a CA option.
	PlatformCA     *CA
	ClientPlatform KeyPair // client certificate signed by PlatformCA
}

// Bundle is a CA option holding two certificates: an unrelated CA first, the real one second.
func (p *PKI) Bundle() string { return p.OldCA.CertPEM + p.CA.CertPEM }

var (
	pkiOnce sync.Once
	pki     *PKI
)

// GetPKI builds the certificates once per process.
func GetPKI() *PKI {
	pkiOnce.Do(func() {
		p := &PKI{CA: NewCA("verif-ca"), ForeignCA: NewCA("verif-foreign-ca")}
		names := []string{"localhost"}
		ips := []string{"127.0.0.1"}
		p.ServerGood = p.CA.Issue("localhost", names, ips, false, false)
		p.ServerWrongHost = p.CA.Issue("other.example", []string{"other.example"}, nil, false, false)
		p.ServerUntrusted = p.ForeignCA.Issue("localhost", names, ips, false, false)
		p.ServerExpired = p.CA.Issue("localhost", names, ips, false, true)
		p.ClientGood = p.CA.Issue("client", nil, nil, true, false)
		p.ClientForeign = p.ForeignCA.Issue("client", nil, nil, true, false)
		p.OldCA = NewCA("verif-old-ca")
		p.ShadowCA = NewCA("verif-ca")
		p.ClientShadow = p.ShadowCA.Issue("client", nil, nil, true, false)
		p.ClientExpired = p.CA.Issue("client", nil, nil, true, true)
		p.PlatformCA = NewCA("verif-platform-ca")
		p.ClientPlatform = p.PlatformCA.Issue("client", nil, nil, true, false)
		pki = p
	})
	return pki
}

var (
	certMu    sync.Mutex
	certCache = map[string]KeyPair{}
)

// ServerCertFor returns a server certificate of the given kind for host: "match" (trusted, SAN == host only),
// "wronghost" (trusted, SAN other.example), "untrusted" (foreign CA, SAN == host), "expired" (trusted, SAN == host),
// "platform" (valid, SAN == host, signed by the CA of the platform trust store instead of the configured one).
func ServerCertFor(kind, host string) KeyPair {
	p := GetPKI()
	certMu.Lock()
	defer certMu.Unlock()
	key := kind + "/" + host
	if kp, ok := certCache[key]; ok {
		return kp
	}
	var dns, ips []string
	if net.ParseIP(host) != nil {
		ips = []string{host}
	} else {
		dns = []string{host}
	}
	var kp KeyPair
	switch kind {
	case "match":
		kp = p.CA.Issue(host, dns, ips, false, false)
	case "wronghost":
		kp = p.CA.Issue("other.example", []string{"other.example"}, nil, false, false)
	case "untrusted":
		kp = p.ForeignCA.Issue(host, dns, ips, false, false)
	case "expired":
		kp = p.CA.Issue(host, dns, ips, false, true)
	case "platform":
		kp = p.PlatformCA.Issue(host, dns, ips, false, false)
	default:
		panic("unknown certificate kind " + kind)
	}
	certCache[key] = kp
	return kp
}

// InstallPlatformTrust makes PlatformCA the one certificate authority of the process' system trust store (SSL_CERT_FILE
// and an empty SSL_CERT_DIR, read by crypto/x509 when the system pool is first needed). It has to run before anything
// verifies a certificate; it panics ("vlib:", i.e. an inconclusive run) when the store turns out to hold anything else.
func InstallPlatformTrust() {
	p := GetPKI()
	dir, err := os.MkdirTemp(os.Getenv("VERIF_RUNDIR"), "platform-trust-")
	if err != nil {
		panic("vlib: platform trust store: " + err.Error())
	}
	file := filepath.Join(dir, "ca.pem")
	empty := filepath.Join(dir, "certs.d")
	if err := os.WriteFile(file, []byte(p.PlatformCA.CertPEM), 0o644); err != nil {
		panic("vlib: platform trust store: " + err.Error())
	}
	_ = os.Mkdir(empty, 0o755)
	os.Setenv("SSL_CERT_FILE", file)
	os.Setenv("SSL_CERT_DIR", empty)
	pool, err := x509.SystemCertPool()
	if err != nil {
		panic("vlib: platform trust store: " + err.Error())
	}
	if _, err := p.PlatformCA.Cert.Verify(x509.VerifyOptions{Roots: pool}); err != nil {
		panic("vlib: platform trust store does not hold the harness CA: " + err.Error())
	}
	if _, err := p.CA.Cert.Verify(x509.VerifyOptions{Roots: pool}); err == nil {
		panic("vlib: platform trust store trusts the configured CA")
	}
}
