//go:build verif

package c04

import (
	"io"
	"net"
	"net/http"
	"os"
	"time"

	serverCmd "github.com/bokysan/socketace/v2/internal/commands/server"
	"github.com/bokysan/socketace/v2/internal/server"
	"github.com/bokysan/socketace/v2/internal/util/addr"
	"github.com/bokysan/socketace/v2/internal/util/cert"
	"github.com/bokysan/socketace/v2/internal/zzverif/vlib"
	"github.com/gorilla/websocket"
)

// oneShot serves exactly one HTTP connection and upgrades it to a websocket.
type oneShot struct {
	conn   net.Conn
	handle func(*websocket.Conn)
}

type oneListener struct {
	c    net.Conn
	done chan struct{}
	used bool
}

func (l *oneListener) Accept() (net.Conn, error) {
	if !l.used {
		l.used = true
		return l.c, nil
	}
	<-l.done
	return nil, io.EOF
}
func (l *oneListener) Close() error   { return nil }
func (l *oneListener) Addr() net.Addr { return l.c.LocalAddr() }

func (o *oneShot) serve() {
	done := make(chan struct{})
	up := websocket.Upgrader{}
	srv := &http.Server{Handler: http.HandlerFunc(func(w http.ResponseWriter, r *http.Request) {
		defer close(done)
		wc, err := up.Upgrade(w, r, nil)
		if err != nil {
			return
		}
		o.handle(wc)
	})}
	go srv.Serve(&oneListener{c: o.conn, done: done})
	select {
	case <-done:
	case <-time.After(15 * time.Second):
	}
	srv.Close()
}

// stdioPlaintext starts a stdio+tls server on pipes, writes prefix in clear and returns what came back.
func stdioPlaintext(cfg vlib.PairConfig, prefix []byte) []byte {
	c2sR, c2sW, _ := os.Pipe()
	s2cR, s2cW, _ := os.Pipe()
	defer c2sR.Close()
	defer c2sW.Close()
	defer s2cR.Close()
	defer s2cW.Close()
	sc := cert.ServerConfig{}
	if cfg.ServerCert != nil {
		sc = cert.ServerConfig{Config: cert.Config{Certificate: cfg.ServerCert.CertPEM, PrivateKey: cfg.ServerCert.KeyPEM}}
	}
	srv := &server.IoServer{ServerConfig: sc, Address: addr.MustParseAddress("stdio+tls://"), Input: c2sR, Output: s2cW}
	chans := server.Channels{}
	for _, c := range cfg.Channels {
		chans = append(chans, &server.NetworkChannel{AbstractChannel: server.AbstractChannel{ProtoName: addr.ProtoName{Name: c.Name}, Address: addr.MustParseAddress(c.Target)}})
	}
	cmd := &serverCmd.Command{Channels: chans, Servers: server.Servers{srv}}
	if err := cmd.Startup(make(chan os.Signal, 1)); err != nil {
		return nil
	}
	c2sW.Write(prefix)
	out := make(chan []byte, 1)
	go func() {
		var all []byte
		buf := make([]byte, 4096)
		for {
			n, err := s2cR.Read(buf)
			all = append(all, buf[:n]...)
			if err != nil {
				break
			}
		}
		out <- all
	}()
	time.Sleep(300 * time.Millisecond)
	c2sW.Close()
	s2cW.Close()
	select {
	case b := <-out:
		return b
	case <-time.After(2 * time.Second):
		return nil
	}
}

// startServerOn starts a real socketace server of the given carrier on a fixed port; returns its shutdown function.
func startServerOn(carrier string, port int, kp *vlib.KeyPair, tgt *vlib.Target) (func(), error) {
	sc := cert.ServerConfig{Config: cert.Config{Certificate: kp.CertPEM, PrivateKey: kp.KeyPEM}}
	var srv server.Server
	if carrier == vlib.CarHTTPS {
		srv = &server.HttpServer{ServerConfig: sc, Address: addr.MustParseAddress("https://" + vlib.HostPort(port)), Endpoints: server.WebsocketEndpointList{server.HttpEndpoint{Endpoint: "/ws/all"}}}
	} else {
		srv = &server.SocketServer{ServerConfig: sc, Address: addr.MustParseAddress("tcp+tls://" + vlib.HostPort(port))}
	}
	cmd := &serverCmd.Command{
		Channels: server.Channels{&server.NetworkChannel{AbstractChannel: server.AbstractChannel{ProtoName: addr.ProtoName{Name: "data"}, Address: addr.MustParseAddress(tgt.URL())}}},
		Servers:  server.Servers{srv},
	}
	if err := cmd.Startup(make(chan os.Signal, 1)); err != nil {
		return nil, err
	}
	return func() { defer func() { recover() }(); cmd.Shutdown() }, nil
}
