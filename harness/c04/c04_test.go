//go:build verif

package c04

import (
	"bufio"
	"bytes"
	"crypto/tls"
	"fmt"
	"io"
	"net"
	"strings"
	"sync"
	"testing"
	"time"

	"github.com/bokysan/socketace/v2/internal/client/upstream"
	"github.com/bokysan/socketace/v2/internal/socketace"
	"github.com/bokysan/socketace/v2/internal/util/addr"
	"github.com/bokysan/socketace/v2/internal/util/cert"
	"github.com/bokysan/socketace/v2/internal/version"
	"github.com/bokysan/socketace/v2/internal/zzverif/vlib"
	"github.com/gorilla/websocket"
	"pgregory.net/rapid"
)

func TestMain(m *testing.M) {
	socketace.HandshakeTimeout = 8 * time.Second
	vlib.Main(m)
}

// marker: 32 high-entropy bytes that cannot occur on the wire by accident
func marker(key uint64) []byte { return vlib.PRF(key^0xC04C04, 0, 32) }

func payloadWithMarker(key uint64, pre, post int) []byte {
	var b []byte
	b = append(b, vlib.PRF(key+1, 0, pre)...)
	b = append(b, marker(key)...)
	b = append(b, vlib.PRF(key+2, 0, post)...)
	return b
}

// ---------------------------------------------------------------------------------------------------------
// Experiment 1: real client x real server, observer on the carrier

type exp1 struct {
	Carrier    string `json:"carrier"`
	ServerCert bool   `json:"server_has_certificate"`
	MustSecure bool   `json:"client_requires_security"`
	Insecure   bool   `json:"client_insecure_flag"`
	UDPSecret  bool   `json:"udp_shared_secret"` // packets AES-encrypted with a shared secret: still not a "secure" carrier
	// ClientScheme: the upstream address uses the other documented spelling of its scheme (ws for http, wss for https)
	ClientScheme string `json:"upstream_scheme_spelling,omitempty"`
	Pre          int    `json:"padding_before"`
	Post         int    `json:"padding_after"`
	Key          uint64 `json:"key"`
}

func carrierEncrypted(c string) bool {
	return c == vlib.CarTCPTLS || c == vlib.CarHTTPS || c == vlib.CarStdioTLS
}

func runExp1(d exp1) (problem string, inconclusive bool) {
	tgt := vlib.NewTarget("data", vlib.EchoHandler)
	defer tgt.Close()
	pki := vlib.GetPKI()
	cfg := vlib.PairConfig{Carrier: d.Carrier, ClientInsecure: d.Insecure, MustSecure: d.MustSecure, ViaRelay: true,
		ClientCA: pki.CA.CertPEM, HostSpelling: "localhost", ClientScheme: d.ClientScheme,
		Channels:  []vlib.ChannelSpec{{Name: "data", Target: tgt.URL()}},
		Listeners: []vlib.ListenerSpec{{Channel: "data"}}}
	if d.UDPSecret {
		cfg.Secret, cfg.ClientSecret = "sh4red", "sh4red"
	}
	if d.ServerCert {
		host := "localhost"
		if d.Carrier == vlib.CarDNS {
			host = "example.org"
		}
		kp := vlib.ServerCertFor("match", host)
		cfg.ServerCert = &kp
	}
	var p *vlib.Pair
	var err error
	release := func(bool) {}
	if d.Carrier == vlib.CarDNS {
		cfg.HostSpelling = ""
		p, release, err = vlib.SharedDNSPair(fmt.Sprintf("c04/%p", tgt), func() (*vlib.Pair, error) { return vlib.StartPair(cfg) })
	} else {
		p, err = vlib.StartPair(cfg)
	}
	if err != nil {
		if vlib.IsBindError(err) {
			return "", true
		}
		return "pair start: " + err.Error(), false
	}
	defer func() { release(true); p.Close() }()

	bound := 15 * time.Second
	if d.Carrier == vlib.CarDNS {
		bound = 60 * time.Second
	}
	data := payloadWithMarker(d.Key, d.Pre, d.Post)
	c, err := p.Dial("data")
	if err != nil {
		return "dial: " + err.Error(), false
	}
	c.SetDeadline(time.Now().Add(bound))
	c.Write(data)
	got, _ := vlib.ReadFullTimeout(c, len(data), bound)
	established := vlib.FirstDiff(got, data) == -1
	c.Close()
	time.Sleep(20 * time.Millisecond)

	up, down, haveWire := p.WireRecorded()
	mk := marker(d.Key)
	seen := haveWire && (bytes.Contains(up, mk) || bytes.Contains(down, mk))
	cc := vlib.ClientConnOf(p.Client.Upstream.Data[0])
	clientSecure := cc != nil && cc.Secure()
	tech := ""
	if cc != nil {
		tech = cc.SecurityTech()
	}

	secureExpected := carrierEncrypted(d.Carrier) || d.ServerCert
	establishedExpected := secureExpected || !d.MustSecure
	ctx := fmt.Sprintf("established=%v clientSecure=%v tech=%q markerOnWire=%v wire=%d+%d bytes", established, clientSecure, tech, seen, len(up), len(down))

	// (d) nobody reports secure while the observer saw the marker
	if clientSecure && seen {
		return "client reports the session secure but the application payload crossed the carrier in clear; " + ctx, false
	}
	// (b) require security: data only over a protected session
	if d.MustSecure && seen {
		return "client was told to require security but the application payload crossed the carrier in clear; " + ctx, false
	}
	if d.MustSecure && established && !clientSecure {
		return "client was told to require security but carried data over a session it does not report secure; " + ctx, false
	}
	// (c) StartTLS offered on a carrier that is not encrypted: upgraded (tls) or no session
	if d.ServerCert && !carrierEncrypted(d.Carrier) && established {
		if !clientSecure || tech != socketace.SecurityTls {
			return "server offered StartTLS but the established session is not reported as tls by the client; " + ctx, false
		}
		if seen {
			return "server offered StartTLS but the payload crossed the carrier in clear; " + ctx, false
		}
	}
	if established != establishedExpected {
		if establishedExpected {
			return "session expected but not established; " + ctx + fmt.Sprintf("; log: %v", vlib.Tap.Tail(5)), false
		}
		return "session established although security was required and is not available; " + ctx, false
	}
	// detector sanity: without any protection the marker must be visible to the observer (DNS encodes payloads)
	if established && !secureExpected && haveWire && d.Carrier != vlib.CarDNS && !d.UDPSecret && !seen {
		return "", true
	}
	return "", false
}

var exp1Carriers = []string{vlib.CarTCP, vlib.CarTCPTLS, vlib.CarHTTP, vlib.CarHTTPS, vlib.CarStdio, vlib.CarStdioTLS, vlib.CarUDP, vlib.CarDNS}

func exp1Matrix(withDNS bool) []exp1 {
	var out []exp1
	for _, car := range exp1Carriers {
		if car == vlib.CarDNS && !withDNS {
			continue
		}
		for _, sc := range []bool{false, true} {
			if carrierEncrypted(car) && !sc {
				continue // a TLS endpoint needs its certificate
			}
			for _, ms := range []bool{false, true} {
				for _, ins := range []bool{false, true} {
					if car == vlib.CarStdio && sc && !ins {
						continue // StartTLS over standard streams has no host name to verify: only with the insecure flag
					}
					out = append(out, exp1{Carrier: car, ServerCert: sc, MustSecure: ms, Insecure: ins})
					if car == vlib.CarUDP {
						out = append(out, exp1{Carrier: car, ServerCert: sc, MustSecure: ms, Insecure: ins, UDPSecret: true})
					}
					if car == vlib.CarHTTP {
						out = append(out, exp1{Carrier: car, ServerCert: sc, MustSecure: ms, Insecure: ins, ClientScheme: "ws"})
					}
					if car == vlib.CarHTTPS {
						out = append(out, exp1{Carrier: car, ServerCert: sc, MustSecure: ms, Insecure: ins, ClientScheme: "wss"})
					}
				}
			}
		}
	}
	return out
}

func TestWireObserverMatrix(t *testing.T) {
	shard, shards := vlib.Shard()
	cases := exp1Matrix(true)
	reps := vlib.Pick(1, 4)
	complete := true
	idx := 0
	for rep := 0; rep < reps; rep++ {
		for _, d := range cases {
			idx++
			if idx%shards != shard {
				continue
			}
			if d.Carrier == vlib.CarDNS && rep > 0 {
				continue
			}
			d.Key = vlib.Seed()*1000 + uint64(idx)
			d.Pre = int((d.Key * 7919) % 3000)
			d.Post = int((d.Key * 104729) % 70000)
			if rep == 0 {
				d.Post = int(d.Key % 200)
			}
			vlib.Tap.Reset()
			problem, inconclusive := runExp1(d)
			if inconclusive {
				complete = false
				vlib.Rec.Inconclusive("bind-or-detector")
				continue
			}
			nontrivial := d.MustSecure || (d.ServerCert && !carrierEncrypted(d.Carrier))
			vlib.Rec.Case(fmt.Sprintf("exp1 %+v", d), nontrivial, []string{"exp1", "carrier:" + d.Carrier, fmt.Sprintf("cert:%v", d.ServerCert), fmt.Sprintf("must:%v", d.MustSecure)}, func() interface{} { return d })
			if problem != "" {
				vlib.Rec.Violation(map[string]interface{}{"property": "C04", "experiment": 1, "case": d, "problem": problem})
				t.Errorf("C04 exp1 %+v: %s", d, problem)
			}
		}
	}
	vlib.Rec.Exhaustive("exp1: (carrier encrypted?, server certificate?, require security?, insecure flag) on tcp/http/stdio/udp/dns (union over shards)", complete)
}

// ---------------------------------------------------------------------------------------------------------
// Experiment 1b: client and server handshake objects joined directly over a recorded loop-back connection, so that
// BOTH ends' reports are available.

type recConn struct {
	net.Conn
	mu  *sync.Mutex
	rec *bytes.Buffer
}

func (r recConn) Write(p []byte) (int, error) {
	r.mu.Lock()
	r.rec.Write(p)
	r.mu.Unlock()
	return r.Conn.Write(p)
}

func TestBothEndsAgree(t *testing.T) {
	rapid.Check(t, func(rt *rapid.T) {
		carrierSecure := rapid.Bool().Draw(rt, "carrierSecure")
		serverCert := rapid.Bool().Draw(rt, "serverCert")
		clientManager := rapid.Bool().Draw(rt, "clientHasManager")
		key := rapid.Uint64().Draw(rt, "key")
		pre := rapid.IntRange(0, 5000).Draw(rt, "pre")
		post := rapid.IntRange(0, 40000).Draw(rt, "post")
		desc := map[string]interface{}{"carrier_secure": carrierSecure, "server_cert": serverCert, "client_manager": clientManager, "pre": pre, "post": post}

		ln, err := net.Listen("tcp", "127.0.0.1:0")
		if err != nil {
			rt.Skip("listen")
		}
		defer ln.Close()
		var mu sync.Mutex
		var wire bytes.Buffer
		var smgr cert.TlsConfig
		if serverCert {
			kp := vlib.ServerCertFor("match", "localhost")
			smgr = &cert.ServerConfig{Config: cert.Config{Certificate: kp.CertPEM, PrivateKey: kp.KeyPEM}}
		} else {
			smgr = &cert.ServerConfig{}
		}
		var cmgr cert.TlsConfig
		if clientManager {
			cmgr = &cert.ClientConfig{Config: cert.Config{CaCertificate: vlib.GetPKI().CA.CertPEM}}
		} else {
			cmgr = &cert.ClientConfig{InsecureSkipVerify: true}
		}
		type sres struct {
			sc  *socketace.ServerConnection
			err error
		}
		sch := make(chan sres, 1)
		go func() {
			c, err := ln.Accept()
			if err != nil {
				sch <- sres{nil, err}
				return
			}
			c.SetDeadline(time.Now().Add(10 * time.Second))
			sc, err := socketace.NewServerConnection(recConn{c, &mu, &wire}, smgr, carrierSecure)
			sch <- sres{sc, err}
		}()
		raw, err := net.Dial("tcp", ln.Addr().String())
		if err != nil {
			rt.Skip("dial")
		}
		defer raw.Close()
		raw.SetDeadline(time.Now().Add(10 * time.Second))
		cc, cerr := socketace.NewClientConnection(recConn{raw, &mu, &wire}, cmgr, carrierSecure, "localhost:1234")
		sr := <-sch
		labels := []string{"exp1b", fmt.Sprintf("carrierSecure:%v", carrierSecure), fmt.Sprintf("cert:%v", serverCert)}
		offered := serverCert && !carrierSecure
		vlib.Rec.Case(fmt.Sprintf("exp1b %v", desc), offered, labels, func() interface{} { return desc })
		fail := func(msg string) {
			vlib.Rec.Violation(map[string]interface{}{"property": "C04", "experiment": "1b", "case": desc, "problem": msg})
			rt.Fatalf("C04 exp1b %v: %s", desc, msg)
		}
		if (cerr == nil) != (sr.err == nil) {
			// one end has a session and the other does not: whichever has one must not believe it is secure+usable
			if cerr == nil && offered {
				fail(fmt.Sprintf("client established a session (secure=%v) but the server did not: %v", cc.Secure(), sr.err))
			}
			return
		}
		if cerr != nil {
			if offered && clientManager {
				fail(fmt.Sprintf("StartTLS offered and certificate valid, but no session: client %v / server %v", cerr, sr.err))
			}
			return
		}
		defer sr.sc.Close()
		defer cc.Close()
		if cc.Secure() != sr.sc.Secure() || cc.SecurityTech() != sr.sc.SecurityTech() {
			fail(fmt.Sprintf("ends disagree: client secure=%v/%s, server secure=%v/%s", cc.Secure(), cc.SecurityTech(), sr.sc.Secure(), sr.sc.SecurityTech()))
		}
		if offered && cc.SecurityTech() != socketace.SecurityTls {
			fail(fmt.Sprintf("StartTLS was offered on an unencrypted carrier but the session is %q", cc.SecurityTech()))
		}
		// push the marker through the negotiated connection, both ways
		data := payloadWithMarker(key, pre, post)
		done := make(chan []byte, 1)
		go func() {
			b := make([]byte, len(data))
			io.ReadFull(sr.sc, b)
			sr.sc.Write(b)
			done <- b
		}()
		cc.Write(data)
		echo := make([]byte, len(data))
		io.ReadFull(cc, echo)
		<-done
		if vlib.FirstDiff(echo, data) != -1 {
			fail("payload did not survive the negotiated connection")
		}
		mu.Lock()
		seen := bytes.Contains(wire.Bytes(), marker(key))
		mu.Unlock()
		if cc.SecurityTech() == socketace.SecurityTls && seen {
			fail("both ends report tls but the payload crossed the wire in clear")
		}
		if cc.SecurityTech() == socketace.SecurityNone && !seen {
			vlib.Rec.Inconclusive("detector")
		}
	})
}

// ---------------------------------------------------------------------------------------------------------
// Experiment 2: real client (requiring security) x scripted server

type script struct {
	AnnounceStatus string `json:"announce_status"` // 200, 403, 500, garbage, close
	Capability     string `json:"capability"`      // StartTLS, starttls, STARTTLS, none, FOO, "FOO, StartTLS", duplicate
	UpgradeStatus  string `json:"upgrade_status"`  // 101, 200, 400, 503, garbage, close
	AfterUpgrade   string `json:"after_upgrade"`   // tls, plaintext, silence, close
	MustSecure     bool   `json:"client_requires_security"`
}

func (s script) offersStartTLS() bool {
	if s.Capability == "duplicate" {
		return true
	}
	for _, tok := range strings.Split(s.Capability, ",") {
		if strings.EqualFold(strings.TrimSpace(tok), "StartTLS") {
			return true
		}
	}
	return false
}

// reallySecure: the script performs a genuine TLS handshake at the point the protocol defines.
func (s script) reallySecure() bool {
	return s.AnnounceStatus == "200" && s.offersStartTLS() && s.UpgradeStatus == "101" && s.AfterUpgrade == "tls"
}

func readHeader(br *bufio.Reader) (string, error) {
	var sb strings.Builder
	for {
		line, err := br.ReadString('\n')
		sb.WriteString(line)
		if err != nil {
			return sb.String(), err
		}
		if line == "\r\n" || line == "\n" {
			return sb.String(), nil
		}
	}
}

func statusLine(code string) string {
	switch code {
	case "200":
		return "HTTP/1.1 200 OK\r\n"
	case "101":
		return "HTTP/1.1 101 Switching Protocols\r\n"
	case "garbage":
		return "\x00\xff\x10garbage without structure\r\n"
	default:
		return "HTTP/1.1 " + code + " Scripted\r\n"
	}
}

// serveScript plays the scripted server on one accepted connection; everything it reads in clear is recorded.
func serveScript(c net.Conn, s script, clear *bytes.Buffer, mu *sync.Mutex, tlsDone *bool) {
	defer c.Close()
	c.SetDeadline(time.Now().Add(12 * time.Second))
	tee := io.TeeReader(c, writerFunc(func(p []byte) { mu.Lock(); clear.Write(p); mu.Unlock() }))
	br := bufio.NewReader(tee)
	if _, err := readHeader(br); err != nil {
		return
	}
	if s.AnnounceStatus == "close" {
		return
	}
	resp := statusLine(s.AnnounceStatus) + "Server: scripted\r\nProtocol-Version: " + version.ProtocolVersion + "\r\n"
	switch s.Capability {
	case "none":
	case "duplicate":
		resp += "Capabilities: StartTLS\r\nCapabilities: StartTLS\r\n"
	default:
		resp += "Capabilities: " + s.Capability + "\r\n"
	}
	c.Write([]byte(resp + "\r\n"))
	if _, err := readHeader(br); err != nil {
		return
	}
	if s.UpgradeStatus == "close" {
		return
	}
	c.Write([]byte(statusLine(s.UpgradeStatus) + "Server: scripted\r\nConnection: upgrade\r\nUpgrade: socketace/" + version.ProtocolVersion + "\r\n\r\n"))
	switch s.AfterUpgrade {
	case "tls":
		kp := vlib.ServerCertFor("match", "localhost")
		crt, _ := tls.X509KeyPair([]byte(kp.CertPEM), []byte(kp.KeyPEM))
		// the TLS layer reads through br (and thus through the recorder: handshake bytes are not the marker)
		tc := tls.Server(&rwConn{Conn: c, r: br}, &tls.Config{Certificates: []tls.Certificate{crt}})
		if err := tc.Handshake(); err != nil {
			return
		}
		mu.Lock()
		*tlsDone = true
		mu.Unlock()
		io.Copy(io.Discard, tc)
	case "plaintext":
		c.Write([]byte("\x01\x00\x00\x00\x00\x00\x00\x00 plaintext after upgrade"))
		io.Copy(io.Discard, br)
	case "silence":
		io.Copy(io.Discard, br)
	case "close":
	}
}

type writerFunc func(p []byte)

func (f writerFunc) Write(p []byte) (int, error) { f(p); return len(p), nil }

type rwConn struct {
	net.Conn
	r io.Reader
}

func (c *rwConn) Read(p []byte) (int, error) { return c.r.Read(p) }

func TestScriptedServer(t *testing.T) {
	old := socketace.HandshakeTimeout
	socketace.HandshakeTimeout = 3 * time.Second
	defer func() { socketace.HandshakeTimeout = old }()
	rapid.Check(t, func(rt *rapid.T) {
		// start from the well-behaved StartTLS script and misbehave at 0-2 drawn steps
		s := script{AnnounceStatus: "200", Capability: "StartTLS", UpgradeStatus: "101", AfterUpgrade: "tls"}
		for i, n := 0, rapid.IntRange(0, 2).Draw(rt, "mutations"); i < n; i++ {
			switch rapid.IntRange(0, 3).Draw(rt, "step") {
			case 0:
				s.AnnounceStatus = []string{"403", "500", "garbage", "close", "201"}[rapid.IntRange(0, 4).Draw(rt, "announce")]
			case 1:
				s.Capability = []string{"starttls", "STARTTLS", "none", "none", "FOO", "FOO, StartTLS", "duplicate", "StartTLS2"}[rapid.IntRange(0, 7).Draw(rt, "capability")]
			case 2:
				s.UpgradeStatus = []string{"200", "400", "503", "garbage", "close"}[rapid.IntRange(0, 4).Draw(rt, "upgrade")]
			default:
				s.AfterUpgrade = []string{"plaintext", "plaintext", "silence", "close"}[rapid.IntRange(0, 3).Draw(rt, "after")]
			}
		}
		s.MustSecure = rapid.IntRange(0, 3).Draw(rt, "must") != 0
		kind := []string{"tcp", "http"}[rapid.IntRange(0, 1).Draw(rt, "kind")]
		key := rapid.Uint64().Draw(rt, "key")

		problem, skipped := runScript(s, kind, key)
		if skipped {
			rt.Skip("listen")
		}
		if problem != "" {
			rt.Fatalf("C04 exp2 %+v kind=%s: %s", s, kind, problem)
		}
	})
}

// TestCapabilitySpellings enumerates how a server may spell a capability list that contains StartTLS (blanks around the
// commas, other capabilities before and after, letter case) with an otherwise well-behaved StartTLS script, with and
// without required security: an offered StartTLS is taken, whatever the spelling of the list.
func TestCapabilitySpellings(t *testing.T) {
	old := socketace.HandshakeTimeout
	socketace.HandshakeTimeout = 3 * time.Second
	defer func() { socketace.HandshakeTimeout = old }()
	spellings := []string{"StartTLS", "Compress,StartTLS", "Compress, StartTLS", "StartTLS , Compress", "StartTLS, Compress", " StartTLS", "StartTLS ", "Compress , StartTLS , KeepAlive", "starttls", "FOO,\tStartTLS"}
	for i, sp := range spellings {
		for _, must := range []bool{false, true} {
			for _, kind := range []string{"tcp", "http"} {
				s := script{AnnounceStatus: "200", Capability: sp, UpgradeStatus: "101", AfterUpgrade: "tls", MustSecure: must}
				problem, skipped := runScript(s, kind, uint64(7000+i))
				if skipped {
					vlib.Rec.Inconclusive("listen")
					continue
				}
				if problem != "" {
					t.Errorf("C04 exp2 %+v kind=%s: %s", s, kind, problem)
				}
			}
		}
	}
}

// runScript plays one scripted server against the real client upstream and judges the outcome; "" = fine.
func runScript(s script, kind string, key uint64) (problem string, skipped bool) {
	ln, err := net.Listen("tcp", "127.0.0.1:0")
	if err != nil {
		return "", true
	}
	defer ln.Close()
	var mu sync.Mutex
	var clear bytes.Buffer
	tlsDone := false
	var wg sync.WaitGroup
	wg.Add(1)
	go func() {
		defer wg.Done()
		c, err := ln.Accept()
		if err != nil {
			return
		}
		if kind == "http" {
			// speak the websocket upgrade first, then the script inside binary messages
			serveWebsocketScript(c, s, &clear, &mu, &tlsDone)
			return
		}
		serveScript(c, s, &clear, &mu, &tlsDone)
	}()
	port := ln.Addr().(*net.TCPAddr).Port
	var up upstream.Upstream
	if kind == "tcp" {
		up = &upstream.Socket{Address: addr.MustParseAddress(fmt.Sprintf("tcp://localhost:%d", port))}
	} else {
		up = &upstream.Http{Address: addr.MustParseAddress(fmt.Sprintf("http://localhost:%d/ws", port))}
	}
	mgr := &cert.ClientConfig{Config: cert.Config{CaCertificate: vlib.GetPKI().CA.CertPEM}}
	cerr := up.Connect(mgr, s.MustSecure)
	connected := cerr == nil
	mk := marker(key)
	if connected {
		// what the client would now carry: application data on the physical session
		up.SetDeadline(time.Now().Add(3 * time.Second))
		up.Write(payloadWithMarker(key, 100, 100))
		time.Sleep(30 * time.Millisecond)
		up.Close()
	}
	ln.Close()
	wg.Wait()
	mu.Lock()
	seenClear := bytes.Contains(clear.Bytes(), mk)
	td := tlsDone
	mu.Unlock()
	desc := map[string]interface{}{"script": s, "kind": kind}
	misbehaving := !s.reallySecure()
	vlib.Rec.Case(fmt.Sprintf("exp2 %+v %s", s, kind), misbehaving || s.MustSecure, []string{"exp2", "kind:" + kind, "announce:" + s.AnnounceStatus, "cap:" + s.Capability, "upgrade:" + s.UpgradeStatus, "after:" + s.AfterUpgrade, fmt.Sprintf("must:%v", s.MustSecure), fmt.Sprintf("connected:%v", connected)}, func() interface{} { return desc })
	fail := func(msg string) {
		if problem == "" {
			vlib.Rec.Violation(map[string]interface{}{"property": "C04", "experiment": 2, "case": desc, "problem": msg})
			problem = msg
		}
	}
	if s.MustSecure && connected && !td {
		fail("client requires security, Connect succeeded, but the scripted server never completed a TLS handshake")
	}
	if s.MustSecure && seenClear {
		fail("client requires security but the scripted server read the application payload in clear")
	}
	if s.offersStartTLS() && s.AnnounceStatus == "200" && connected && !td {
		fail("server offered StartTLS, no TLS handshake took place, yet the client established the session")
	}
	if connected {
		if cc := vlib.ClientConnOf(up); cc != nil && cc.Secure() && !td {
			fail("client reports the session secure but no TLS handshake took place")
		}
	}
	if s.reallySecure() && !connected {
		fail(fmt.Sprintf("well-behaved StartTLS script but the client did not connect: %v", cerr))
	}
	return problem, false
}

type wsNetConn struct {
	c   *websocket.Conn
	buf []byte
	net.Conn
}

func (w *wsNetConn) Read(p []byte) (int, error) {
	for len(w.buf) == 0 {
		_, m, err := w.c.ReadMessage()
		if err != nil {
			return 0, err
		}
		w.buf = m
	}
	n := copy(p, w.buf)
	w.buf = w.buf[n:]
	return n, nil
}
func (w *wsNetConn) Write(p []byte) (int, error) {
	return len(p), w.c.WriteMessage(websocket.BinaryMessage, p)
}
func (w *wsNetConn) Close() error { return w.c.Close() }

func serveWebsocketScript(c net.Conn, s script, clear *bytes.Buffer, mu *sync.Mutex, tlsDone *bool) {
	// minimal HTTP upgrade using gorilla's Upgrader over a one-shot http server on this connection
	srv := &oneShot{conn: c, handle: func(wc *websocket.Conn) {
		serveScript(&wsNetConn{c: wc, Conn: c}, s, clear, mu, tlsDone)
	}}
	srv.serve()
}

// ---------------------------------------------------------------------------------------------------------
// Experiment 3: TLS-configured endpoint x scripted plaintext client

func TestPlaintextAgainstTLSEndpoint(t *testing.T) {
	rapid.Check(t, func(rt *rapid.T) {
		carrier := []string{vlib.CarTCPTLS, vlib.CarHTTPS, vlib.CarStdioTLS}[rapid.IntRange(0, 2).Draw(rt, "carrier")]
		// the HTTPS endpoint under each of its documented spellings
		serverScheme := ""
		if carrier == vlib.CarHTTPS {
			serverScheme = []string{"", "wss", "http+tls", "ws+tls"}[rapid.IntRange(0, 3).Draw(rt, "serverScheme")]
		}
		var prefix []byte
		kind := rapid.IntRange(0, 4).Draw(rt, "prefixKind")
		announce := "X-SOCKETACE / HTTP/1.1\r\nAccepts-Protocol-Version: " + version.ProtocolVersion + "\r\nUser-Agent: plain/1.0\r\n\r\n"
		upgrade := "GET / HTTP/1.1\r\nUser-Agent: plain/1.0\r\nUpgrade: socketace/" + version.ProtocolVersion + "\r\nConnection: upgrade\r\n\r\n"
		switch kind {
		case 0:
			prefix = []byte(announce + upgrade)
		case 1:
			prefix = []byte(announce)
		case 2:
			prefix = []byte("GET /ws/all HTTP/1.1\r\nHost: localhost\r\nUpgrade: websocket\r\nConnection: Upgrade\r\nSec-WebSocket-Key: dGhlIHNhbXBsZSBub25jZQ==\r\nSec-WebSocket-Version: 13\r\n\r\n" + announce + upgrade)
		case 3:
			prefix = rapid.SliceOfN(rapid.Byte(), 1, 400).Draw(rt, "bytes")
		default:
			a := announce + upgrade
			prefix = []byte(a[:rapid.IntRange(1, len(a)).Draw(rt, "cut")])
		}
		tgt := vlib.NewTarget("data", vlib.EchoHandler)
		defer tgt.Close()
		kp := vlib.ServerCertFor("match", "localhost")
		cfg := vlib.PairConfig{Carrier: carrier, ServerCert: &kp, ClientInsecure: true, ServerScheme: serverScheme,
			Channels:  []vlib.ChannelSpec{{Name: "data", Target: tgt.URL()}},
			Listeners: []vlib.ListenerSpec{{Channel: "data"}}}
		// a TLS endpoint whose certificate is missing from the configuration may refuse to start or refuse every
		// peer; it may not serve in clear
		noCert := rapid.IntRange(0, 3).Draw(rt, "noCertificate") == 0
		if noCert {
			cfg.ServerCert = nil
		}
		var reply []byte
		if carrier == vlib.CarStdioTLS {
			// standard-stream endpoint: the harness is the peer on the pipes; build the server only
			reply = stdioPlaintext(cfg, prefix)
		} else {
			p, err := vlib.StartPair(cfg)
			if err != nil {
				if vlib.IsBindError(err) {
					vlib.Rec.Inconclusive("bind")
					return
				}
				if noCert {
					vlib.Rec.Case(fmt.Sprintf("exp3 %s no-certificate refused to start", carrier), true, []string{"exp3", "carrier:" + carrier, "no-certificate", "refused-to-start"}, func() interface{} {
						return map[string]interface{}{"carrier": carrier, "no_certificate": true, "start_error": err.Error()}
					})
					return
				}
				rt.Fatalf("pair start: %v", err)
			}
			defer p.Close()
			c, err := net.Dial("tcp", vlib.HostPort(p.SrvPort))
			if err != nil {
				rt.Fatalf("dial: %v", err)
			}
			c.SetDeadline(time.Now().Add(500 * time.Millisecond))
			c.Write(prefix)
			reply, _ = io.ReadAll(c)
			c.Close()
		}
		desc := map[string]interface{}{"carrier": carrier, "server_scheme": serverScheme, "prefix_kind": kind, "prefix": vlib.Hex(prefix), "no_certificate": noCert}
		vlib.Rec.Case(fmt.Sprintf("exp3 %s %s %x %v", carrier, serverScheme, prefix, noCert), true, []string{"exp3", "carrier:" + carrier, "server-scheme:" + serverScheme, fmt.Sprintf("prefix:%d", kind), fmt.Sprintf("no-certificate:%v", noCert)}, func() interface{} { return desc })
		fail := func(msg string) {
			vlib.Rec.Violation(map[string]interface{}{"property": "C04", "experiment": 3, "case": desc, "problem": msg, "reply": vlib.Hex(reply)})
			rt.Fatalf("C04 exp3 %v: %s (reply %q)", desc, msg, string(reply))
		}
		if bytes.Contains(reply, []byte(" 200 OK")) || bytes.Contains(reply, []byte(" 101 ")) {
			fail("a TLS-configured endpoint answered a plaintext handshake with a success status in clear")
		}
		if tgt.Accepts() != 0 {
			fail("a plaintext client caused a target connection through a TLS-configured endpoint")
		}
	})
}

// ---------------------------------------------------------------------------------------------------------
// Experiment 4: an upstream configured for TLS never falls back to plaintext on a later connection attempt

// TestTLSUpstreamNeverReconnectsInClear: the same +tls upstream object is connected several times (as the client does
// after a session loss or a failed first attempt); on the last attempt a hostile peer that speaks a perfect PLAINTEXT
// handshake sits on the port. The client must greet it with a TLS ClientHello, never with a plaintext request, and must
// not complete a session.
func TestTLSUpstreamNeverReconnectsInClear(t *testing.T) {
	// finite space, enumerated: scheme x every sequence of 0-2 earlier attempts
	kinds := []string{"honest-tls-server", "nothing-listening"}
	seqs := [][]string{{}}
	for _, a := range kinds {
		seqs = append(seqs, []string{a})
		for _, b := range kinds {
			seqs = append(seqs, []string{a, b})
		}
	}
	for _, scheme := range []string{"tcp+tls", "https"} {
		for _, priorKinds := range seqs {
			tlsReconnectCase(t, scheme, priorKinds)
		}
	}
}

type fataler interface {
	Fatalf(format string, args ...interface{})
}

func tlsReconnectCase(t *testing.T, scheme string, priorKinds []string) {
	func(rt fataler) {
		prior := len(priorKinds)
		port := vlib.Port()
		var up upstream.Upstream
		carrier := vlib.CarTCPTLS
		if scheme == "tcp+tls" {
			up = &upstream.Socket{Address: addr.MustParseAddress(fmt.Sprintf("tcp+tls://localhost:%d", port))}
		} else {
			carrier = vlib.CarHTTPS
			up = &upstream.Http{Address: addr.MustParseAddress(fmt.Sprintf("https://localhost:%d/ws/all", port))}
		}
		mgr := &cert.ClientConfig{Config: cert.Config{CaCertificate: vlib.GetPKI().CA.CertPEM}}
		desc := map[string]interface{}{"scheme": scheme, "prior_attempts": priorKinds}
		fail := func(msg string) {
			vlib.Rec.Violation(map[string]interface{}{"property": "C04", "experiment": 4, "case": desc, "problem": msg})
			rt.Fatalf("C04 exp4 %v: %s", desc, msg)
		}
		for _, k := range priorKinds {
			if k == "nothing-listening" {
				_ = up.Connect(mgr, false)
				continue
			}
			// an honest TLS socketace server on that very port
			tgt := vlib.NewTarget("data", vlib.EchoHandler)
			kp := vlib.ServerCertFor("match", "localhost")
			srv, err := startServerOn(carrier, port, &kp, tgt)
			if err != nil {
				tgt.Close()
				vlib.Rec.Inconclusive("bind")
				return
			}
			err = up.Connect(mgr, false)
			if err != nil {
				srv()
				tgt.Close()
				fail(fmt.Sprintf("the %s upstream could not connect to an honest TLS server: %v", scheme, err))
			}
			up.Close()
			srv()
			tgt.Close()
			time.Sleep(30 * time.Millisecond)
		}
		// now the hostile plaintext peer
		var ln net.Listener
		var err error
		for i := 0; i < 40; i++ {
			ln, err = net.Listen("tcp", vlib.HostPort(port))
			if err == nil {
				break
			}
			time.Sleep(50 * time.Millisecond)
		}
		if err != nil {
			vlib.Rec.Inconclusive("bind")
			return
		}
		defer ln.Close()
		var mu sync.Mutex
		var first []byte
		var clear bytes.Buffer
		tlsDone := false
		go func() {
			c, err := ln.Accept()
			if err != nil {
				return
			}
			c.SetDeadline(time.Now().Add(6 * time.Second))
			peek := make([]byte, 16)
			n, _ := c.Read(peek)
			mu.Lock()
			first = append([]byte(nil), peek[:n]...)
			mu.Unlock()
			// answer like a plaintext socketace (or plaintext websocket) server would
			s := script{AnnounceStatus: "200", Capability: "none", UpgradeStatus: "101", AfterUpgrade: "silence"}
			pc := &prefixConn{Conn: c, prefix: peek[:n]}
			if scheme == "https" {
				serveWebsocketScript(pc, s, &clear, &mu, &tlsDone)
			} else {
				serveScript(pc, s, &clear, &mu, &tlsDone)
			}
		}()
		old := socketace.HandshakeTimeout
		socketace.HandshakeTimeout = 3 * time.Second
		cerr := up.Connect(mgr, false)
		socketace.HandshakeTimeout = old
		if cerr == nil {
			up.Close()
		}
		time.Sleep(30 * time.Millisecond)
		mu.Lock()
		fb := append([]byte(nil), first...)
		mu.Unlock()
		vlib.Rec.Case(fmt.Sprintf("exp4 %v", desc), true, []string{"exp4", "scheme:" + scheme, fmt.Sprintf("prior:%d", prior)}, func() interface{} { return desc })
		if len(fb) > 0 && !(fb[0] == 0x16 && len(fb) > 1 && fb[1] == 0x03) {
			fail(fmt.Sprintf("the %s upstream greeted the peer in clear on a later connection attempt: first bytes %q", scheme, fb))
		}
		if cerr == nil {
			fail(fmt.Sprintf("the %s upstream completed a session with a peer that only speaks plaintext", scheme))
		}
	}(errorfAsFatal{t})
}

// errorfAsFatal lets one enumerated case fail without stopping the enumeration.
type errorfAsFatal struct{ t *testing.T }

func (e errorfAsFatal) Fatalf(format string, args ...interface{}) { e.t.Errorf(format, args...) }

// prefixConn replays bytes that were read ahead.
type prefixConn struct {
	net.Conn
	prefix []byte
}

func (p *prefixConn) Read(b []byte) (int, error) {
	if len(p.prefix) > 0 {
		n := copy(b, p.prefix)
		p.prefix = p.prefix[n:]
		return n, nil
	}
	return p.Conn.Read(b)
}

// TestTLSEndpointSpellings enumerates every documented spelling of a TLS endpoint address against the two complete
// plaintext openings (the socketace handshake, and a websocket upgrade followed by it): no spelling may be served in
// clear.
func TestTLSEndpointSpellings(t *testing.T) {
	announce := "X-SOCKETACE / HTTP/1.1\r\nAccepts-Protocol-Version: " + version.ProtocolVersion + "\r\nUser-Agent: plain/1.0\r\n\r\n"
	upgrade := "GET / HTTP/1.1\r\nUser-Agent: plain/1.0\r\nUpgrade: socketace/" + version.ProtocolVersion + "\r\nConnection: upgrade\r\n\r\n"
	wsUpgrade := "GET /ws/all HTTP/1.1\r\nHost: localhost\r\nUpgrade: websocket\r\nConnection: Upgrade\r\nSec-WebSocket-Key: dGhlIHNhbXBsZSBub25jZQ==\r\nSec-WebSocket-Version: 13\r\n\r\n"
	type spelling struct{ carrier, scheme string }
	for _, sp := range []spelling{{vlib.CarTCPTLS, ""}, {vlib.CarUnixTLS, ""}, {vlib.CarHTTPS, ""}, {vlib.CarHTTPS, "wss"}, {vlib.CarHTTPS, "http+tls"}, {vlib.CarHTTPS, "ws+tls"}} {
		for k, prefix := range []string{announce + upgrade, wsUpgrade, wsUpgrade + announce + upgrade} {
			tgt := vlib.NewTarget("data", vlib.EchoHandler)
			kp := vlib.ServerCertFor("match", "localhost")
			p, err := vlib.StartPair(vlib.PairConfig{Carrier: sp.carrier, ServerCert: &kp, ClientInsecure: true, ServerScheme: sp.scheme,
				Channels:  []vlib.ChannelSpec{{Name: "data", Target: tgt.URL()}},
				Listeners: []vlib.ListenerSpec{{Channel: "data"}}})
			if err != nil {
				tgt.Close()
				if vlib.IsBindError(err) {
					vlib.Rec.Inconclusive("bind")
					continue
				}
				t.Fatalf("pair start (%+v): %v", sp, err)
			}
			var reply []byte
			network, address := "tcp", vlib.HostPort(p.SrvPort)
			if sp.carrier == vlib.CarUnixTLS {
				network, address = "unix", p.UnixPath()
			}
			if c, err := net.Dial(network, address); err == nil {
				c.SetDeadline(time.Now().Add(500 * time.Millisecond))
				c.Write([]byte(prefix))
				reply, _ = io.ReadAll(c)
				c.Close()
			}
			accepts := tgt.Accepts()
			p.Close()
			tgt.Close()
			desc := map[string]interface{}{"carrier": sp.carrier, "server_scheme": sp.scheme, "plaintext_opening": []string{"socketace handshake", "websocket upgrade", "websocket upgrade + socketace handshake"}[k]}
			vlib.Rec.Case(fmt.Sprintf("exp3-enum %+v %d", sp, k), true, []string{"exp3", "enumerated", "carrier:" + sp.carrier, "server-scheme:" + sp.scheme}, func() interface{} { return desc })
			msg := ""
			if bytes.Contains(reply, []byte(" 200 OK")) || bytes.Contains(reply, []byte(" 101 ")) {
				msg = "a TLS-configured endpoint answered a plaintext opening with a success status in clear"
			} else if accepts != 0 {
				msg = "a plaintext client caused a target connection through a TLS-configured endpoint"
			}
			if msg != "" {
				vlib.Rec.Violation(map[string]interface{}{"property": "C04", "experiment": 3, "case": desc, "problem": msg, "reply": vlib.Hex(reply)})
				t.Errorf("C04 exp3 %v: %s (reply %q)", desc, msg, string(reply))
			}
		}
	}
}
