//go:build verif

package dns

// C15, DNS endpoint, part that needs the server's own clock: a peer that holds a session and goes silent is retired by the
// listener's once-a-minute sweep after ConnectionTimeout. That sweep runs under the listener-wide lock that every new
// session needs, so it is itself a place where one stalled peer can block all the others. The scenario is run on several
// listeners at once (each over its own simulated wire) across one (thorough: two) real sweeps, with well-behaved clients
// arriving throughout.

import (
	"fmt"
	"net"
	"sync"
	"testing"
	"time"

	vlib "github.com/bokysan/socketace/v2/internal/zzverif/vcore"
	"pgregory.net/rapid"
)

func TestMain(m *testing.M) { vlib.Main(m) }

const domainC15 = "example.org"

type silentPlan struct {
	Silent      int    `json:"silent_peers"`
	SilentAfter string `json:"silent_after"` // version-handshake, session-setup, transfer
	SameAddress bool   `json:"good_clients_share_the_silent_peers_address"`
}

// bounded runs f and reports whether it returned within d.
func bounded(d time.Duration, f func() string) (string, bool) {
	c := make(chan string, 1)
	go func() {
		defer func() {
			if r := recover(); r != nil {
				c <- fmt.Sprint("panic: ", r)
			}
		}()
		c <- f()
	}()
	select {
	case s := <-c:
		return s, true
	case <-time.After(d):
		return "", false
	}
}

func TestSilentSessionsAcrossTheSweep(t *testing.T) {
	oldConn := ConnectionTimeout
	defer func() { ConnectionTimeout = oldConn }()
	ConnectionTimeout = 3 * time.Second // exported knob; the sweep period itself is a fixed minute
	n := vlib.Pick(6, 30)
	duration := time.Duration(vlib.Pick(72, 135)) * time.Second
	gen := rapid.Custom(func(rt *rapid.T) silentPlan {
		return silentPlan{
			Silent:      rapid.IntRange(1, 3).Draw(rt, "silent"),
			SilentAfter: []string{"version-handshake", "session-setup", "transfer"}[rapid.IntRange(0, 2).Draw(rt, "after")],
			SameAddress: rapid.Bool().Draw(rt, "sameAddr"),
		}
	})
	type world struct {
		plan    silentPlan
		ss      *simServer
		srv     *ServerDnsListener
		created time.Time
		problem string
		served  int
	}
	silentAddr := &net.UDPAddr{IP: net.IPv4(10, 9, 0, 1), Port: 5001}
	var worlds []*world
	for i := 0; i < n; i++ {
		w := &world{plan: gen.Example(int(vlib.Seed()%100000) + i), ss: &simServer{}}
		w.srv = NewServerDnsListener(domainC15, w.ss)
		w.created = time.Now()
		defer func(srv *ServerDnsListener) {
			// a listener wedged by the defect under test must not wedge the harness
			go func() { defer func() { recover() }(); srv.Close() }()
		}(w.srv)
		for k := 0; k < w.plan.Silent; k++ {
			msg, ok := bounded(10*time.Second, func() string {
				s, err := openSessionNoAccept(w.ss, w.srv, silentAddr)
				if err != nil {
					return "handshake of a peer on a fresh listener failed: " + err.Error()
				}
				c, err := w.srv.Accept()
				if err != nil {
					return "accept: " + err.Error()
				}
				s.user = c.(*userConnection)
				if w.plan.SilentAfter == "version-handshake" {
					return ""
				}
				if err := s.finishSetup(); err != nil {
					return "session setup: " + err.Error()
				}
				if w.plan.SilentAfter == "transfer" {
					return s.transfer(uint64(7000+k), 300)
				}
				return ""
			})
			if !ok || msg != "" {
				t.Fatalf("setting up silent peer %d on listener %d: ok=%v %s", k, i, ok, msg)
			}
			// ... and this peer never sends anything again
		}
		worlds = append(worlds, w)
	}
	// well-behaved clients arrive on every listener every few seconds until after the sweep(s)
	start := time.Now()
	round := 0
	for time.Since(start) < duration {
		round++
		var wg sync.WaitGroup
		for i, w := range worlds {
			if w.problem != "" {
				continue
			}
			wg.Add(1)
			go func(i int, w *world) {
				defer wg.Done()
				addr := net.Addr(&net.UDPAddr{IP: net.IPv4(10, 9, 1, byte(1+round%200)), Port: 6000 + i})
				if w.plan.SameAddress {
					addr = silentAddr
				}
				age := time.Since(w.created).Round(time.Second)
				msg, ok := bounded(10*time.Second, func() string {
					s, err := openSession(w.ss, w.srv, addr)
					if err != nil {
						return "handshake failed: " + err.Error()
					}
					if m := s.transfer(uint64(9000+round*10), 200); m != "" {
						return m
					}
					s.client.Close()
					return ""
				})
				switch {
				case !ok:
					w.problem = fmt.Sprintf("a well-behaved client arriving %v after the listener started (%d silent peers, silent after %s) was not served within 10s", age, w.plan.Silent, w.plan.SilentAfter)
				case msg != "":
					w.problem = fmt.Sprintf("a well-behaved client arriving %v after the listener started (%d silent peers, silent after %s) failed: %s", age, w.plan.Silent, w.plan.SilentAfter, msg)
				default:
					w.served++
				}
			}(i, w)
		}
		wg.Wait()
		time.Sleep(4 * time.Second)
	}
	for i, w := range worlds {
		d := map[string]interface{}{"listener": i, "plan": w.plan, "well_behaved_clients_served": w.served, "observed_for_s": int(duration / time.Second)}
		vlib.Rec.Case(fmt.Sprintf("sweep %d %+v", i, w.plan), true, []string{"dns-sweep", "silent-after:" + w.plan.SilentAfter, fmt.Sprintf("silent:%d", w.plan.Silent)}, func() interface{} { return d })
		if w.problem != "" {
			vlib.Rec.Violation(map[string]interface{}{"property": "C15", "case": d, "problem": w.problem})
			t.Errorf("C15 dns sweep, listener %d %+v: %s", i, w.plan, w.problem)
		}
	}
}
