//go:build verif

package vcore

import (
	"fmt"
	"io"
	"os"
	"sync"

	log "github.com/sirupsen/logrus"
)

// LogTap keeps the most recent socketace log records (output itself is discarded).
type LogTap struct {
	mu   sync.Mutex
	ring []string
	n    int
}

var Tap = &LogTap{ring: make([]string, 400)}

func (l *LogTap) Levels() []log.Level { return log.AllLevels }

func (l *LogTap) Fire(e *log.Entry) error {
	l.mu.Lock()
	l.ring[l.n%len(l.ring)] = fmt.Sprintf("%s %s", e.Level.String()[:4], e.Message)
	l.n++
	l.mu.Unlock()
	return nil
}

// Reset forgets everything recorded so far.
func (l *LogTap) Reset() {
	l.mu.Lock()
	l.n = 0
	l.mu.Unlock()
}

// Tail returns up to k most recent records, oldest first.
func (l *LogTap) Tail(k int) []string {
	l.mu.Lock()
	defer l.mu.Unlock()
	start := l.n - k
	if start < 0 {
		start = 0
	}
	if l.n-start > len(l.ring) {
		start = l.n - len(l.ring)
	}
	out := make([]string, 0, l.n-start)
	for i := start; i < l.n; i++ {
		out = append(out, l.ring[i%len(l.ring)])
	}
	return out
}

// Contains reports whether any retained record contains sub.
func (l *LogTap) Contains(sub string) bool {
	for _, s := range l.Tail(len(l.ring)) {
		if containsStr(s, sub) {
			return true
		}
	}
	return false
}

func containsStr(s, sub string) bool {
	for i := 0; i+len(sub) <= len(s); i++ {
		if s[i:i+len(sub)] == sub {
			return true
		}
	}
	return false
}

// QuietLogs discards socketace's log output but keeps warnings and errors in the tap.
func QuietLogs() {
	log.SetOutput(io.Discard)
	log.SetLevel(log.WarnLevel)
	if os.Getenv("VERIF_DEBUGLOG") != "" {
		log.SetLevel(log.DebugLevel)
	}
	log.AddHook(Tap)
}
