//go:build verif

package vcore

import (
	"encoding/json"
	"os"
	"sync"
)

// KnownFinding is one entry of /verif/known_findings.json.
type KnownFinding struct {
	Property    string `json:"property"`
	Signature   string `json:"signature"`
	Status      string `json:"status"` // "open" (suppresses exactly this signature) or "fixed" (suppresses nothing)
	Commit      string `json:"commit,omitempty"`
	Description string `json:"description"`
	Replay      string `json:"replay,omitempty"`
}

var (
	knownOnce sync.Once
	knownOpen map[string]bool
)

func loadKnown() {
	knownOpen = map[string]bool{}
	path := os.Getenv("VERIF_KNOWN")
	if path == "" {
		return
	}
	b, err := os.ReadFile(path)
	if err != nil {
		return
	}
	var doc struct {
		Findings []KnownFinding `json:"findings"`
	}
	if json.Unmarshal(b, &doc) != nil {
		return
	}
	for _, f := range doc.Findings {
		if f.Status == "open" {
			knownOpen[f.Property+":"+f.Signature] = true
		}
	}
}

// IsKnown reports whether signature sig of property prop is listed as an open known finding. When it is, the
// caller counts the case with Rec.Known and treats it as passed so the search continues behind it; when it is
// not, the same failure is a violation.
func IsKnown(prop, sig string) bool {
	knownOnce.Do(loadKnown)
	return knownOpen[prop+":"+sig]
}
