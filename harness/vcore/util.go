//go:build verif

package vcore

// ---- payload helpers ---------------------------------------------------------------------------------------

// PRF fills n bytes that depend on (tag, offset): a byte that crosses into another stream is recognisable.
func PRF(tag uint64, off, n int) []byte {
	out := make([]byte, n)
	for i := range out {
		x := tag*0x9E3779B97F4A7C15 + uint64(off+i)*0xBF58476D1CE4E5B9
		x ^= x >> 29
		x *= 0x94D049BB133111EB
		x ^= x >> 32
		out[i] = byte(x)
	}
	return out
}

// FirstDiff returns the first offset where a and b differ (or the shorter length), -1 when equal.
func FirstDiff(a, b []byte) int {
	n := len(a)
	if len(b) < n {
		n = len(b)
	}
	for i := 0; i < n; i++ {
		if a[i] != b[i] {
			return i
		}
	}
	if len(a) != len(b) {
		return n
	}
	return -1
}
