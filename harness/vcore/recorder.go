//go:build verif

// Package vlib holds the fixtures shared by all verification harnesses: case recorder (evidence counters),
// known-findings matcher, port allocator, scripted targets, recording relay, certificate factory, pair builder
// and the simulated DNS path.
package vcore

import (
	"encoding/json"
	"fmt"
	"hash/fnv"
	"os"
	"sort"
	"strconv"
	"sync"
	"testing"

	_ "pgregory.net/rapid" // registers the -rapid.* flags in every harness binary
)

// Recorder collects what a check actually explored. One per process; flushed by Main.
type Recorder struct {
	mu          sync.Mutex
	evaluations int
	nontrivial  map[uint64]struct{}
	labels      map[string]int
	samples     []interface{}
	sampleSeen  int
	known       map[string]int
	knownSample map[string]interface{}
	violations  []interface{}
	exhaustive  map[string]bool
	extra       map[string]interface{}
	inconcl     int
}

var Rec = &Recorder{
	nontrivial:  map[uint64]struct{}{},
	labels:      map[string]int{},
	known:       map[string]int{},
	knownSample: map[string]interface{}{},
	exhaustive:  map[string]bool{},
	extra:       map[string]interface{}{},
}

const maxSamples = 12

func hashKey(key string) uint64 {
	h := fnv.New64a()
	_, _ = h.Write([]byte(key))
	return h.Sum64()
}

// Case records one evaluated case. key identifies the case (distinctness); nontrivial says whether it
// satisfies the check's stated non-triviality rule; sample is called lazily to render the case for evidence.
func (r *Recorder) Case(key string, nontrivial bool, labels []string, sample func() interface{}) {
	r.mu.Lock()
	defer r.mu.Unlock()
	r.evaluations++
	for _, l := range labels {
		r.labels[l]++
	}
	if nontrivial {
		h := hashKey(key)
		if _, ok := r.nontrivial[h]; !ok {
			r.nontrivial[h] = struct{}{}
			r.sampleSeen++
			// deterministic reservoir: keep the first few and then every 2^k-th distinct non-trivial case
			if sample != nil {
				if len(r.samples) < maxSamples {
					r.samples = append(r.samples, sample())
				} else if r.sampleSeen&(r.sampleSeen-1) == 0 {
					r.samples[(r.sampleSeen/7)%maxSamples] = sample()
				}
			}
		}
	}
}

// Label bumps a histogram label without counting a case.
func (r *Recorder) Label(l string) {
	r.mu.Lock()
	r.labels[l]++
	r.mu.Unlock()
}

// Inconclusive counts a case that could not be judged (overload, port clash); never a verdict.
func (r *Recorder) Inconclusive(why string) {
	r.mu.Lock()
	r.inconcl++
	r.labels["inconclusive:"+why]++
	r.mu.Unlock()
}

// Known records a re-observation of a listed known finding.
func (r *Recorder) Known(sig string, sample interface{}) {
	r.mu.Lock()
	r.known[sig]++
	if _, ok := r.knownSample[sig]; !ok {
		r.knownSample[sig] = sample
	}
	r.mu.Unlock()
}

// Violation stores a human-readable counter-example (the rapid fail file, if any, is picked up by the driver).
func (r *Recorder) Violation(v interface{}) {
	r.mu.Lock()
	if len(r.violations) < 20 {
		r.violations = append(r.violations, v)
	}
	r.mu.Unlock()
	r.Flush()
}

func (r *Recorder) Exhaustive(space string, complete bool) {
	r.mu.Lock()
	r.exhaustive[space] = complete
	r.mu.Unlock()
}

func (r *Recorder) Extra(k string, v interface{}) {
	r.mu.Lock()
	r.extra[k] = v
	r.mu.Unlock()
}

// Flush writes the stats file named by VERIF_STATS (no-op when unset).
func (r *Recorder) Flush() {
	path := os.Getenv("VERIF_STATS")
	if path == "" {
		return
	}
	r.mu.Lock()
	defer r.mu.Unlock()
	hs := make([]string, 0, len(r.nontrivial))
	for h := range r.nontrivial {
		hs = append(hs, strconv.FormatUint(h, 16))
	}
	sort.Strings(hs)
	out := map[string]interface{}{
		"evaluations":  r.evaluations,
		"nontrivial":   hs,
		"labels":       r.labels,
		"samples":      r.samples,
		"known":        r.known,
		"known_sample": r.knownSample,
		"violations":   r.violations,
		"exhaustive":   r.exhaustive,
		"extra":        r.extra,
		"inconclusive": r.inconcl,
	}
	b, err := json.Marshal(out)
	if err != nil {
		b, _ = json.Marshal(map[string]interface{}{"error": err.Error(), "evaluations": r.evaluations})
	}
	tmp := path + ".tmp"
	if err := os.WriteFile(tmp, b, 0o644); err == nil {
		_ = os.Rename(tmp, path)
	}
}

// Main is used as TestMain body by every harness package.
var (
	failLaterMu sync.Mutex
	failLater   []string
)

// FailLater registers a violation found outside any test function's context (helper code shared by several tests);
// Main turns it into a failing exit after the tests have run.
func FailLater(msg string) {
	failLaterMu.Lock()
	failLater = append(failLater, msg)
	failLaterMu.Unlock()
}

func Main(m *testing.M) {
	QuietLogs()
	code := m.Run()
	Rec.Flush()
	failLaterMu.Lock()
	msgs := failLater
	failLaterMu.Unlock()
	if len(msgs) > 0 {
		for _, s := range msgs {
			fmt.Printf("--- FAIL: violation found by shared helper code: %s\n", s)
		}
		if code == 0 {
			fmt.Println("FAIL")
			code = 1
		}
	}
	os.Exit(code)
}

// Tier returns "quick" or "thorough".
func Tier() string {
	if os.Getenv("VERIF_TIER") == "thorough" {
		return "thorough"
	}
	return "quick"
}

func Thorough() bool { return Tier() == "thorough" }

// Pick returns q in the quick tier and t in the thorough tier.
func Pick(q, t int) int {
	if Thorough() {
		return t
	}
	return q
}

// Shard returns (index, count) of this process within a sharded thorough run.
func Shard() (int, int) {
	i, _ := strconv.Atoi(os.Getenv("VERIF_SHARD"))
	n, _ := strconv.Atoi(os.Getenv("VERIF_SHARDS"))
	if n <= 0 {
		n = 1
	}
	return i, n
}

// Seed is the integer seed of this run (never 0).
func Seed() uint64 {
	s, _ := strconv.ParseUint(os.Getenv("VERIF_SEED_EFFECTIVE"), 10, 64)
	if s == 0 {
		s = 20260927
	}
	return s
}

// Hex renders bytes compactly for samples.
func Hex(b []byte) string {
	if len(b) <= 48 {
		return fmt.Sprintf("%x", b)
	}
	return fmt.Sprintf("%x..(%d bytes)..%x", b[:24], len(b), b[len(b)-8:])
}
