//go:build verif

package c16

import (
	"fmt"
	"net"
	"testing"
	"time"

	"github.com/bokysan/socketace/v2/internal/client/upstream"
	"github.com/bokysan/socketace/v2/internal/util/addr"
	"github.com/bokysan/socketace/v2/internal/zzverif/vlib"
	mdns "github.com/miekg/dns"
)

// failingResolver is a name server that is reachable but does not relay the tunnel: every query is answered at once
// with the given response code (SERVFAIL, REFUSED, NXDOMAIN).
func failingResolver(rcode int) (address string, queries func() int, stop func()) {
	port := vlib.Port()
	pc, err := net.ListenPacket("udp", vlib.HostPort(port))
	if err != nil {
		panic("vlib: failing resolver: " + err.Error())
	}
	n := make(chan int, 1)
	n <- 0
	go func() {
		buf := make([]byte, 4096)
		for {
			k, from, err := pc.ReadFrom(buf)
			if err != nil {
				return
			}
			q := new(mdns.Msg)
			if q.Unpack(buf[:k]) != nil {
				continue
			}
			n <- (<-n + 1)
			r := new(mdns.Msg)
			r.SetRcode(q, rcode)
			if b, err := r.Pack(); err == nil {
				pc.WriteTo(b, from)
			}
		}
	}()
	return vlib.HostPort(port), func() int { v := <-n; n <- v; return v }, func() { pc.Close() }
}

// TestDNSUpstreamWhoseResolversFail: the first upstream of the list is a DNS tunnel that names k resolvers, each of which
// answers but does not let the tunnel through; behind it stands a working TCP upstream. The client has to abandon the
// DNS upstream within bounded time and settle on the TCP one, for every k.
func TestDNSUpstreamWhoseResolversFail(t *testing.T) {
	ks := []int{1, 2, 3}
	for _, k := range ks {
		for _, rcode := range []int{mdns.RcodeServerFailure, mdns.RcodeRefused} {
			var list []string
			var counters []func() int
			var stops []func()
			for i := 0; i < k; i++ {
				a, c, s := failingResolver(rcode)
				list = append(list, a)
				counters = append(counters, c)
				stops = append(stops, s)
			}
			url := "dns://example.org?direct=false"
			for _, a := range list {
				url += "&dns=" + a
			}
			tgt := vlib.NewTarget("data", vlib.EchoHandler)
			p, err := vlib.StartPair(vlib.PairConfig{Carrier: vlib.CarTCP, ClientInsecure: true,
				ExtraUpstreams: []upstream.Upstream{&upstream.Dns{Address: addr.MustParseAddress(url)}},
				Channels:       []vlib.ChannelSpec{{Name: "data", Target: tgt.URL()}},
				Listeners:      []vlib.ListenerSpec{{Channel: "data"}}})
			if err != nil {
				tgt.Close()
				for _, s := range stops {
					s()
				}
				if vlib.IsBindError(err) {
					vlib.Rec.Inconclusive("bind")
					continue
				}
				t.Fatalf("pair start: %v", err)
			}
			bound := 60 * time.Second
			t0 := time.Now()
			msg := vlib.PRF(16, k, 300)
			ok := false
			if c, err := p.Dial("data"); err == nil {
				c.SetDeadline(time.Now().Add(bound))
				c.Write(msg)
				got, _ := vlib.ReadFullTimeout(c, len(msg), bound)
				ok = vlib.FirstDiff(got, msg) == -1
				c.Close()
			}
			took := time.Since(t0)
			var asked []int
			for _, c := range counters {
				asked = append(asked, c())
			}
			p.Close()
			tgt.Close()
			for _, s := range stops {
				s()
			}
			desc := map[string]interface{}{"upstreams": []string{url, "tcp (working)"}, "failing_resolvers": k, "rcode": mdns.RcodeToString[rcode], "queries_per_resolver": asked, "seconds_until_echo": took.Seconds(), "echoed": ok}
			vlib.Rec.Case(fmt.Sprintf("dns-resolvers-fail k=%d rcode=%d", k, rcode), true, []string{"dns-upstream-with-failing-resolvers", fmt.Sprintf("resolvers:%d", k)}, func() interface{} { return desc })
			if !ok {
				vlib.Rec.Violation(map[string]interface{}{"property": "C16", "case": desc, "problem": "the client never abandoned the DNS upstream whose resolvers do not let the tunnel through"})
				t.Errorf("C16 a DNS upstream with %d resolvers that answer %s, followed by a working TCP upstream: no echo within %v (queries seen by the resolvers: %v)", k, mdns.RcodeToString[rcode], bound, asked)
			}
		}
	}
}
