//go:build verif

package c16

import (
	"fmt"
	"os"
	"testing"
	"time"

	"github.com/bokysan/socketace/v2/internal/client/listener"
	"github.com/bokysan/socketace/v2/internal/client/upstream"
	clientCmd "github.com/bokysan/socketace/v2/internal/commands/client"
	"github.com/bokysan/socketace/v2/internal/streams"
	"github.com/bokysan/socketace/v2/internal/util/addr"
	"github.com/bokysan/socketace/v2/internal/util/cert"
	"github.com/bokysan/socketace/v2/internal/zzverif/vlib"
)

// TestListenerSpecsWithForwardGoDirect: "direct first" holds for every listener kind the textual listener form
// (name~listen~forward) can give. Each spec is parsed by the real parser, the client is started with one working
// upstream, and the local connection must be answered by the forward target while the upstream's target sees nothing.
func TestListenerSpecsWithForwardGoDirect(t *testing.T) {
	for _, kind := range []string{"tcp", "stdin", "stdio"} {
		func() {
			fwd := vlib.NewTarget("forward", vlib.BannerEchoHandler)
			defer fwd.Close()
			e, err := build(upSpec{Kind: "tcp", Fate: fWorks}, 0, false)
			if err != nil {
				vlib.Rec.Inconclusive("setup")
				return
			}
			defer e.close()
			lport := vlib.Port()
			spec := fmt.Sprintf("data~tcp://127.0.0.1:%d~%s", lport, fwd.URL())
			if kind != "tcp" {
				spec = fmt.Sprintf("data~%s://~%s", kind, fwd.URL())
			}
			var ls listener.Listeners
			if err := ls.UnmarshalFlag(spec); err != nil || len(ls) != 1 {
				t.Errorf("C16 listener spec %q: %v (%d listeners)", spec, err, len(ls))
				return
			}
			var appR, appW *os.File
			if iol, ok := ls[0].(*listener.InputOutputListener); ok {
				var cliR, cliW *os.File
				appR, cliW, _ = os.Pipe()
				cliR, appW, _ = os.Pipe()
				defer appR.Close()
				defer appW.Close()
				defer cliR.Close()
				defer cliW.Close()
				iol.InputOutput = streams.NewSimulatedConnection(streams.NewReadWriteCloser(cliR, cliW),
					&addr.StandardIOAddress{Address: "local"}, &addr.StandardIOAddress{Address: "remote"})
			}
			cli := &clientCmd.Command{ClientConfig: cert.ClientConfig{InsecureSkipVerify: true},
				Upstream: upstream.Upstreams{Data: []upstream.Upstream{e.up}}, ListenList: ls}
			if err := cli.Startup(make(chan os.Signal, 1)); err != nil {
				if vlib.IsBindError(err) {
					vlib.Rec.Inconclusive("bind")
					return
				}
				t.Errorf("C16 client start with listener %q: %v", spec, err)
				return
			}
			defer func() { defer func() { recover() }(); cli.Shutdown() }()
			banner := ""
			if appR != nil {
				got := make(chan string, 1)
				go func() {
					buf := make([]byte, 64)
					n, _ := appR.Read(buf)
					got <- string(buf[:n])
				}()
				select {
				case banner = <-got:
				case <-time.After(10 * time.Second):
				}
			} else {
				banner, _ = probe(vlib.HostPort(lport), 10*time.Second)
				banner += "\n"
			}
			d := map[string]interface{}{"listener_spec": spec, "answered_by": banner, "upstream_target_connections": e.tgt.Accepts()}
			vlib.Rec.Case("listener-spec-forward "+kind, true, []string{"forward:reachable", "listener-kind:" + kind, "parsed-listener-spec"}, func() interface{} { return d })
			if banner != "forward\n" || e.tgt.Accepts() != 0 {
				vlib.Rec.Violation(map[string]interface{}{"property": "C16", "case": d, "problem": "the listener's forward address is reachable but the local connection was not made directly"})
				t.Errorf("C16 listener %q with a reachable forward address: the local connection was answered by %q (want the forward target), the upstream's target saw %d connections", spec, banner, e.tgt.Accepts())
			}
		}()
	}
}
