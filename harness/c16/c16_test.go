//go:build verif

package c16

import (
	"fmt"
	"io"
	"net"
	"os"
	"strings"
	"sync"
	"testing"
	"time"

	"github.com/bokysan/socketace/v2/internal/client/listener"
	"github.com/bokysan/socketace/v2/internal/client/upstream"
	clientCmd "github.com/bokysan/socketace/v2/internal/commands/client"
	serverCmd "github.com/bokysan/socketace/v2/internal/commands/server"
	"github.com/bokysan/socketace/v2/internal/server"
	"github.com/bokysan/socketace/v2/internal/socketace"
	"github.com/bokysan/socketace/v2/internal/util/addr"
	"github.com/bokysan/socketace/v2/internal/util/cert"
	"github.com/bokysan/socketace/v2/internal/version"
	"github.com/bokysan/socketace/v2/internal/zzverif/vlib"
	"pgregory.net/rapid"
)

func TestMain(m *testing.M) { vlib.Main(m) }

const (
	fWorks    = "works"
	fRefused  = "refused"
	fSilent   = "silent"
	fError    = "error-status"
	fInsecure = "works-but-insecure"
	// scripted peers that answer the first part of the session negotiation and then never speak again
	fSilentAfterAnnounce = "silent-after-first-response"
	fSilentInStartTLS    = "silent-inside-starttls"
)

// readRequestHeader reads up to the blank line that ends a request header.
func readRequestHeader(c net.Conn) bool {
	var last4 [4]byte
	b := make([]byte, 1)
	for {
		if _, err := c.Read(b); err != nil {
			return false
		}
		last4 = [4]byte{last4[1], last4[2], last4[3], b[0]}
		if string(last4[:]) == "\r\n\r\n" {
			return true
		}
	}
}

type upSpec struct {
	Kind string `json:"kind"` // tcp, http, udp
	Fate string `json:"fate"`
	// Host: spelling of the host in the upstream address ("" = 127.0.0.1). With "localhost" a working server presents a
	// certificate that is valid for localhost only.
	Host string `json:"host,omitempty"`
	// Secret (udp only): the endpoint is protected by a shared secret which the upstream address carries
	Secret bool `json:"shared_secret,omitempty"`
}

type caseDesc struct {
	Ups             []upSpec `json:"upstreams"`
	Forward         string   `json:"forward"` // none, reachable, unreachable
	MustSecure      bool     `json:"must_secure"`
	K               int      `json:"concurrent"`
	Loss            string   `json:"loss"` // none, cut-rst, cut-fin, server-restart
	After           int      `json:"connections_after_loss"`
	AfterConcurrent int      `json:"concurrent_connections_right_after_loss"`
	// Verify: the client checks server certificates (CA configured, not insecure)
	Verify bool `json:"client_verifies_certificates,omitempty"`
	// ForwardEnd (forward reachable): how the direct connections end: "" orderly, reset-by-application, reset-by-target
	ForwardEnd string `json:"direct_connections_end,omitempty"`
	// ForwardUnix (forward reachable): the forward address is a unix-domain socket given with its absolute path
	// (unix:///dir/name.sock) instead of a TCP address
	ForwardUnix bool `json:"forward_address_is_a_unix_socket,omitempty"`
	// Stray: the client also listens for a channel that no server offers; while a logical connection is held open on
	// the shared session a request for that channel is made (and refused): the session and the held connection stay
	Stray bool `json:"request_for_a_channel_nobody_offers_meanwhile,omitempty"`
}

// endpoint is one upstream candidate as built by the harness.
type endpoint struct {
	spec   upSpec
	up     upstream.Upstream
	srv    *serverCmd.Command
	tgt    *vlib.Target
	relay  *vlib.Relay
	port   int
	ln     net.Listener // scripted listeners (silent / error-status)
	closed bool
}

func (e *endpoint) close() {
	if e.closed {
		return
	}
	e.closed = true
	if e.srv != nil {
		func() { defer func() { recover() }(); e.srv.Shutdown() }()
	}
	if e.relay != nil {
		e.relay.Close()
	}
	if e.ln != nil {
		e.ln.Close()
	}
	if e.tgt != nil {
		e.tgt.Close()
	}
}

var serverCertHost = map[int]string{} // port -> host the certificate is for (set by build)
var serverCertMu sync.Mutex

func startServer(kind string, port int, withCert bool, tgt *vlib.Target) (*serverCmd.Command, error) {
	serverCertMu.Lock()
	certHost := serverCertHost[port]
	serverCertMu.Unlock()
	good := vlib.GetPKI().ServerGood
	if certHost != "" {
		good = vlib.ServerCertFor("match", certHost)
	}
	sc := cert.ServerConfig{}
	if withCert {
		kp := good
		sc.Config = cert.Config{Certificate: kp.CertPEM, PrivateKey: kp.KeyPEM}
	}
	var srv server.Server
	switch kind {
	case "tcp":
		srv = &server.SocketServer{ServerConfig: sc, Address: addr.MustParseAddress(fmt.Sprintf("tcp://127.0.0.1:%d", port))}
	case "tcp+tls":
		kp := good
		sc.Config = cert.Config{Certificate: kp.CertPEM, PrivateKey: kp.KeyPEM}
		srv = &server.SocketServer{ServerConfig: sc, Address: addr.MustParseAddress(fmt.Sprintf("tcp+tls://127.0.0.1:%d", port))}
	case "http", "ws":
		srv = &server.HttpServer{ServerConfig: sc, Address: addr.MustParseAddress(fmt.Sprintf("http://127.0.0.1:%d", port)),
			Endpoints: server.WebsocketEndpointList{server.HttpEndpoint{Endpoint: "/ws/all"}}}
	case "udp":
		srv = &server.PacketServer{ServerConfig: sc, Address: addr.MustParseAddress(fmt.Sprintf("udp://127.0.0.1:%d", port))}
	case "udp+secret":
		srv = &server.PacketServer{ServerConfig: sc, Address: addr.MustParseAddress(fmt.Sprintf("udp://:s3cret@127.0.0.1:%d", port))}
	}
	cmd := &serverCmd.Command{
		Channels: server.Channels{&server.NetworkChannel{AbstractChannel: server.AbstractChannel{ProtoName: addr.ProtoName{Name: "data"}, Address: addr.MustParseAddress(tgt.URL())}}},
		Servers:  server.Servers{srv},
	}
	return cmd, cmd.Startup(make(chan os.Signal, 1))
}

func mkUpstream(kind string, port int) upstream.Upstream {
	return mkUpstreamHost(kind, "127.0.0.1", port)
}

func mkUpstreamHost(kind, host string, port int) upstream.Upstream {
	if host == "" {
		host = "127.0.0.1"
	}
	switch kind {
	case "tcp":
		return &upstream.Socket{Address: addr.MustParseAddress(fmt.Sprintf("tcp://%s:%d", host, port))}
	case "tcp+tls":
		return &upstream.Socket{Address: addr.MustParseAddress(fmt.Sprintf("tcp+tls://%s:%d", host, port))}
	case "http":
		return &upstream.Http{Address: addr.MustParseAddress(fmt.Sprintf("http://%s:%d/ws/all", host, port))}
	case "ws":
		// the same carrier under its other documented spelling
		return &upstream.Http{Address: addr.MustParseAddress(fmt.Sprintf("ws://%s:%d/ws/all", host, port))}
	default:
		return &upstream.Packet{Address: addr.MustParseAddress(fmt.Sprintf("udp://%s:%d", host, port))}
	}
}

func build(spec upSpec, idx int, mustSecure bool) (*endpoint, error) {
	e := &endpoint{spec: spec}
	switch spec.Fate {
	case fWorks, fInsecure:
		e.tgt = vlib.NewTarget(fmt.Sprintf("server%d", idx), vlib.BannerEchoHandler)
		e.port = vlib.Port()
		// a working upstream satisfies the security requirement (StartTLS); the insecure one has no certificate
		withCert := spec.Fate == fWorks
		if spec.Host != "" {
			serverCertMu.Lock()
			serverCertHost[e.port] = spec.Host
			serverCertMu.Unlock()
		}
		skind := spec.Kind
		if spec.Kind == "udp" && spec.Secret {
			skind = "udp+secret"
		}
		srv, err := startServer(skind, e.port, withCert, e.tgt)
		if err != nil {
			e.close()
			return nil, err
		}
		e.srv = srv
		cport := e.port
		if spec.Kind != "udp" {
			e.relay = vlib.NewRelay(vlib.HostPort(e.port))
			cport = e.relay.Port
		}
		e.up = mkUpstreamHost(spec.Kind, spec.Host, cport)
		if spec.Kind == "udp" && spec.Secret {
			e.up = &upstream.Packet{Address: addr.MustParseAddress(fmt.Sprintf("udp://:s3cret@127.0.0.1:%d", cport))}
		}
	case fRefused:
		e.port = vlib.Port() // nothing listens here
		e.up = mkUpstreamHost(spec.Kind, spec.Host, e.port)
	case fSilent:
		if spec.Kind == "udp" {
			e.port = vlib.Port()
			pc, err := net.ListenPacket("udp", vlib.HostPort(e.port))
			if err != nil {
				return nil, err
			}
			e.ln = closerFunc(func() error { return pc.Close() })
			e.up = mkUpstream(spec.Kind, e.port)
		} else {
			e.relay = vlib.NewRelay("127.0.0.1:1")
			e.relay.Blackhole = true
			e.up = mkUpstream(spec.Kind, e.relay.Port)
		}
	case fSilentAfterAnnounce, fSilentInStartTLS:
		e.port = vlib.Port()
		ln, err := net.Listen("tcp", vlib.HostPort(e.port))
		if err != nil {
			return nil, err
		}
		e.ln = ln
		go func() {
			for {
				c, err := ln.Accept()
				if err != nil {
					return
				}
				go func(c net.Conn) {
					defer c.Close()
					if !readRequestHeader(c) {
						return
					}
					resp := "HTTP/1.1 200 OK\r\nServer: scripted\r\nProtocol-Version: " + version.ProtocolVersion + "\r\n"
					if spec.Fate == fSilentInStartTLS {
						resp += "Capabilities: StartTLS\r\n"
					}
					c.Write([]byte(resp + "\r\n"))
					if spec.Fate == fSilentInStartTLS {
						if !readRequestHeader(c) {
							return
						}
						c.Write([]byte("HTTP/1.1 101 Switching Protocols\r\nServer: scripted\r\nConnection: upgrade\r\nUpgrade: socketace/" + version.ProtocolVersion + "\r\n\r\n"))
					}
					// ... and never anything again; the connection stays open
					io.Copy(io.Discard, c)
				}(c)
			}
		}()
		e.up = mkUpstream(spec.Kind, e.port)
	case fError:
		// a listener that answers every connection with an error status and closes
		e.port = vlib.Port()
		ln, err := net.Listen("tcp", vlib.HostPort(e.port))
		if err != nil {
			return nil, err
		}
		e.ln = ln
		go func() {
			for {
				c, err := ln.Accept()
				if err != nil {
					return
				}
				go func(c net.Conn) {
					defer c.Close()
					c.SetDeadline(time.Now().Add(5 * time.Second))
					buf := make([]byte, 2048)
					c.Read(buf)
					c.Write([]byte("HTTP/1.1 503 Service Unavailable\r\nServer: scripted\r\nContent-Length: 0\r\n\r\n"))
				}(c)
			}
		}()
		e.up = mkUpstream(spec.Kind, e.port)
	}
	return e, nil
}

type closerFunc func() error

func (f closerFunc) Close() error              { return f() }
func (f closerFunc) Accept() (net.Conn, error) { return nil, fmt.Errorf("not a listener") }
func (f closerFunc) Addr() net.Addr            { return nil }

// expected returns the index of the upstream the policy must settle on (-1: none).
func expected(d caseDesc) int {
	for i, u := range d.Ups {
		if u.Fate == fWorks {
			return i
		}
	}
	return -1
}

// probe opens one local connection and reports which banner answered ("" = failed).
func probe(listen string, timeout time.Duration) (string, string) {
	return probeEnding(listen, timeout, false)
}

// probeEnding: with abort the application ends its connection with a reset instead of an orderly close.
func probeEnding(listen string, timeout time.Duration, abort bool) (string, string) {
	c, err := net.DialTimeout("tcp", listen, 5*time.Second)
	if err != nil {
		return "", "dial: " + err.Error()
	}
	defer func() {
		if tc, ok := c.(*net.TCPConn); ok && abort {
			tc.SetLinger(0)
		}
		c.Close()
	}()
	c.SetDeadline(time.Now().Add(timeout))
	buf := make([]byte, 64)
	n := 0
	for {
		k, err := c.Read(buf[n:])
		n += k
		if i := strings.IndexByte(string(buf[:n]), '\n'); i >= 0 {
			banner := string(buf[:i])
			msg := []byte("ping-0123456789")
			if _, err := c.Write(msg); err != nil {
				return "", "write: " + err.Error()
			}
			got, err := vlib.ReadFullTimeout(c, len(msg)-(n-i-1), timeout)
			_ = got
			if err != nil {
				return "", "echo: " + err.Error()
			}
			return banner, ""
		}
		if err != nil {
			return "", fmt.Sprintf("no banner: %v", err)
		}
	}
}

func runCase(d caseDesc, abandonBound time.Duration) (problem string, inconclusive bool) {
	var eps []*endpoint
	defer func() {
		for _, e := range eps {
			e.close()
		}
	}()
	var ups []upstream.Upstream
	for i, u := range d.Ups {
		e, err := build(u, i, d.MustSecure)
		if err != nil {
			if vlib.IsBindError(err) {
				return "", true
			}
			return "build: " + err.Error(), false
		}
		eps = append(eps, e)
		ups = append(ups, e.up)
	}
	var fwdTgt *vlib.Target
	al := listener.AbstractListener{ProtoName: addr.ProtoName{Name: "data"}}
	switch d.Forward {
	case "reachable":
		handler := vlib.BannerEchoHandler
		if d.ForwardEnd == "reset-by-target" {
			handler = func(tc *vlib.TargetConn) {
				tc.Conn.Write([]byte("forward\n"))
				buf := make([]byte, 64)
				tc.Conn.SetReadDeadline(time.Now().Add(10 * time.Second))
				if n, _ := tc.Conn.Read(buf); n > 0 {
					tc.Conn.Write(buf[:n])
				}
				time.Sleep(20 * time.Millisecond)
				if t, ok := tc.Conn.(*net.TCPConn); ok {
					t.SetLinger(0)
				}
				tc.Conn.Close()
			}
		}
		if d.ForwardUnix {
			fwdTgt = vlib.NewUnixTarget("forward", handler)
		} else {
			fwdTgt = vlib.NewTarget("forward", handler)
		}
		defer fwdTgt.Close()
		f := addr.MustParseAddress(fwdTgt.URL())
		al.Forward = &f
	case "unreachable":
		f := addr.MustParseAddress(fmt.Sprintf("tcp://127.0.0.1:%d", vlib.Port()))
		al.Forward = &f
	}
	lport := vlib.Port()
	al.Address = addr.MustParseAddress(fmt.Sprintf("tcp://127.0.0.1:%d", lport))
	lns := listener.Listeners{&listener.SocketListener{AbstractListener: al}}
	strayListen := ""
	if d.Stray {
		sport := vlib.Port()
		strayListen = vlib.HostPort(sport)
		lns = append(lns, &listener.SocketListener{AbstractListener: listener.AbstractListener{ProtoName: addr.ProtoName{Name: "nochan"},
			Address: addr.MustParseAddress(fmt.Sprintf("tcp://127.0.0.1:%d", sport))}})
	}
	cli := &clientCmd.Command{
		ClientConfig: clientConfig(d),
		Upstream:     upstream.Upstreams{Data: ups},
		ListenList:   lns,
		Secure:       d.MustSecure,
	}
	if err := cli.Startup(make(chan os.Signal, 1)); err != nil {
		if vlib.IsBindError(err) {
			return "", true
		}
		return "client startup: " + err.Error(), false
	}
	defer func() { defer func() { recover() }(); cli.Shutdown() }()
	listen := vlib.HostPort(lport)

	exp := expected(d)
	wantBanner := ""
	if d.Forward == "reachable" {
		wantBanner = "forward"
	} else if exp >= 0 {
		wantBanner = fmt.Sprintf("server%d", exp)
	}

	round := func(k int, what string) string {
		res := make([]string, k)
		errs := make([]string, k)
		var wg sync.WaitGroup
		for i := 0; i < k; i++ {
			wg.Add(1)
			go func(i int) {
				defer wg.Done()
				res[i], errs[i] = probeEnding(listen, abandonBound, d.ForwardEnd == "reset-by-application")
			}(i)
		}
		wg.Wait()
		for i := range res {
			if res[i] != wantBanner {
				return fmt.Sprintf("%s: local connection %d/%d was answered by %q (%s), policy says %q; log: %v", what, i, k, res[i], errs[i], wantBanner, vlib.Tap.Tail(5))
			}
		}
		return ""
	}
	if msg := round(d.K, "initial connections"); msg != "" {
		return msg, false
	}
	physical := func() string {
		if d.Forward == "reachable" {
			if d.ForwardEnd != "" {
				time.Sleep(300 * time.Millisecond) // whatever follows the end of the direct connections has happened by now
			}
			for i, e := range eps {
				if e.relay != nil && e.relay.Connections() > 0 {
					return fmt.Sprintf("forward address reachable (direct connections ended: %s) but upstream %d received a physical connection", d.ForwardEnd, i)
				}
			}
			for i, e := range eps {
				if e.tgt != nil && e.tgt.Accepts() > 0 {
					return fmt.Sprintf("forward address reachable but server%d's target was contacted", i)
				}
			}
			return ""
		}
		for i, e := range eps {
			if i > exp && exp >= 0 {
				if e.relay != nil && e.relay.Connections() > 0 {
					return fmt.Sprintf("upstream %d (after the chosen one, %d) received a physical connection", i, exp)
				}
				if e.tgt != nil && e.tgt.Accepts() > 0 {
					return fmt.Sprintf("upstream %d (after the chosen one, %d) served a logical connection", i, exp)
				}
			}
		}
		return ""
	}
	if msg := physical(); msg != "" {
		return msg, false
	}
	if exp >= 0 && d.Forward != "reachable" && eps[exp].relay != nil {
		if n := eps[exp].relay.Connections(); n != 1 {
			return fmt.Sprintf("%d concurrent logical connections used %d physical connections to the chosen upstream, want 1", d.K, n), false
		}
	}
	if d.Stray && exp >= 0 && d.Forward != "reachable" {
		// one logical connection is held open; somebody asks for a channel no server has; the refusal is that
		// request's own business: the held connection goes on working, over the same physical session
		held, err := net.DialTimeout("tcp", listen, 5*time.Second)
		if err != nil {
			return "dial: " + err.Error(), false
		}
		defer held.Close()
		held.SetDeadline(time.Now().Add(abandonBound))
		if line, _ := vlib.ReadFullTimeout(held, len(wantBanner)+1, abandonBound); string(line) != wantBanner+"\n" {
			return fmt.Sprintf("held connection was answered by %q, policy says %q", line, wantBanner), false
		}
		if sc, err := net.DialTimeout("tcp", strayListen, 5*time.Second); err == nil {
			sc.SetDeadline(time.Now().Add(abandonBound))
			sc.Write([]byte("anybody?"))
			buf := make([]byte, 16)
			if n, _ := sc.Read(buf); n > 0 {
				sc.Close()
				return fmt.Sprintf("a request for a channel no server offers was answered with %d bytes", n), false
			}
			sc.Close()
		}
		msg := []byte("still-here-0123456789")
		held.Write(msg)
		if got, err := vlib.ReadFullTimeout(held, len(msg), abandonBound); string(got) != string(msg) {
			return fmt.Sprintf("after a request for a channel no server offers was refused, the logical connection that was open on the shared session no longer works (%d of %d bytes echoed, %v)", len(got), len(msg), err), false
		}
		if msg := round(1, "connection after a refused request"); msg != "" {
			return msg, false
		}
		if eps[exp].relay != nil {
			if n := eps[exp].relay.Connections(); n != 1 {
				return fmt.Sprintf("after a refused request for a channel no server offers the client used %d physical connections to the chosen upstream, want 1", n), false
			}
		}
	}
	if d.Loss == "none" || exp < 0 || d.Forward == "reachable" {
		return "", false
	}
	e := eps[exp]
	switch d.Loss {
	case "cut-rst":
		if e.relay == nil {
			return "", false
		}
		e.relay.Cut(true)
	case "cut-fin":
		if e.relay == nil {
			return "", false
		}
		e.relay.Cut(false)
	case "server-restart":
		func() { defer func() { recover() }(); e.srv.Shutdown() }()
		if e.relay != nil {
			e.relay.Cut(true)
		}
		time.Sleep(100 * time.Millisecond)
		var err error
		for i := 0; i < 20; i++ {
			rkind := e.spec.Kind
			if rkind == "udp" && e.spec.Secret {
				rkind = "udp+secret"
			}
			e.srv, err = startServer(rkind, e.port, true, e.tgt)
			if err == nil {
				break
			}
			time.Sleep(100 * time.Millisecond)
		}
		if err != nil {
			return "", true
		}
	}
	time.Sleep(100 * time.Millisecond)
	before := 0
	if e.relay != nil {
		before = e.relay.Connections()
	}
	if d.AfterConcurrent > 1 {
		// several local connections arrive together while the loss has not been noticed yet
		if msg := round(d.AfterConcurrent, fmt.Sprintf("%d concurrent connections after session loss (%s)", d.AfterConcurrent, d.Loss)); msg != "" {
			return msg, false
		}
	}
	for i := 0; i < d.After; i++ {
		if msg := round(1, fmt.Sprintf("connection %d after session loss (%s)", i+1, d.Loss)); msg != "" {
			return msg, false
		}
	}
	if e.relay != nil {
		if n := e.relay.Connections() - before; n > 1 {
			return fmt.Sprintf("%d new physical connections for %d concurrent + %d sequential logical connections after the loss, want 1", n, d.AfterConcurrent, d.After), false
		}
	}
	return "", false
}

func minInt(a, b int) int {
	if a < b {
		return a
	}
	return b
}

func describe(d caseDesc) []string {
	labels := []string{fmt.Sprintf("ups:%d", len(d.Ups)), "forward:" + d.Forward, "loss:" + d.Loss, fmt.Sprintf("k:%d", d.K)}
	for _, u := range d.Ups {
		labels = append(labels, "fate:"+u.Kind+"/"+u.Fate)
	}
	if d.MustSecure {
		labels = append(labels, "must-secure")
	}
	if d.Stray {
		labels = append(labels, "refused-request-meanwhile")
	}
	if d.ForwardUnix {
		labels = append(labels, "forward-address-unix-socket")
	}
	return labels
}

func nontrivial(d caseDesc) bool {
	if d.Forward != "none" || d.Loss != "none" {
		return true
	}
	return len(d.Ups) > 1 && d.Ups[0].Fate != fWorks
}

func TestPolicy(t *testing.T) {
	rapid.Check(t, func(rt *rapid.T) {
		d := caseDesc{}
		n := rapid.IntRange(1, 4).Draw(rt, "nups")
		d.MustSecure = rapid.IntRange(0, 2).Draw(rt, "mustSecure") == 0
		fates := []string{fWorks, fWorks, fRefused, fError}
		if d.MustSecure {
			fates = append(fates, fInsecure, fInsecure)
		}
		for i := 0; i < n; i++ {
			u := upSpec{Kind: []string{"tcp", "http", "udp", "tcp+tls", "ws"}[rapid.IntRange(0, 4).Draw(rt, "kind")]}
			if u.Kind == "tcp+tls" && d.MustSecure {
				// a TLS carrier satisfies the requirement by itself: "works but insecure" does not exist for it
				fates = []string{fWorks, fWorks, fRefused, fError}
			}
			u.Fate = fates[rapid.IntRange(0, len(fates)-1).Draw(rt, "fate")]
			if u.Kind == "udp" && (u.Fate == fRefused || u.Fate == fError) {
				// a datagram endpoint cannot refuse or answer a status: that is the silent case (TestSilentUpstreams)
				u.Kind = "tcp"
			}
			d.Ups = append(d.Ups, u)
		}
		d.Forward = []string{"none", "none", "reachable", "unreachable"}[rapid.IntRange(0, 3).Draw(rt, "forward")]
		if d.Forward == "reachable" {
			d.ForwardEnd = []string{"", "reset-by-application", "reset-by-target"}[rapid.IntRange(0, 2).Draw(rt, "forwardEnd")]
			d.ForwardUnix = d.ForwardEnd == "" && rapid.Bool().Draw(rt, "forwardUnix")
		}
		d.K = rapid.IntRange(1, 5).Draw(rt, "k")
		d.Stray = rapid.IntRange(0, 2).Draw(rt, "stray") == 0
		d.Loss = []string{"none", "cut-rst", "cut-fin", "server-restart"}[rapid.IntRange(0, 3).Draw(rt, "loss")]
		d.After = rapid.IntRange(1, 3).Draw(rt, "after")
		if rapid.Bool().Draw(rt, "afterConcurrently") {
			d.AfterConcurrent = rapid.IntRange(2, 5).Draw(rt, "afterConcurrent")
		}
		vlib.Tap.Reset()
		problem, inconclusive := runCase(d, 15*time.Second)
		if problem != "" && !inconclusive {
			// The policy model is deterministic, a loaded machine is not (a UDP/KCP handshake that times out makes the
			// client fail over, legitimately). A deviation counts only when it shows again on fresh endpoints.
			first := problem
			problem, inconclusive = runCase(d, 15*time.Second)
			if problem == "" && !inconclusive {
				vlib.Rec.Inconclusive("not-reproduced: " + first[:minInt(80, len(first))])
				return
			}
		}
		if inconclusive {
			vlib.Rec.Inconclusive("setup")
			return
		}
		vlib.Rec.Case(fmt.Sprintf("%+v", d), nontrivial(d), describe(d), func() interface{} { return d })
		if problem != "" {
			vlib.Rec.Violation(map[string]interface{}{"property": "C16", "case": d, "problem": problem})
			rt.Fatalf("C16 %+v: %s", d, problem)
		}
	})
}

// TestSilentUpstreams: an upstream that accepts and never answers must be abandoned within bounded time; the cases
// run concurrently because each has to wait for the client's own time-outs.
func TestSilentUpstreams(t *testing.T) {
	bound := 75 * time.Second
	var cases []caseDesc
	for _, kind := range []string{"tcp", "http", "udp", "tcp+tls", "ws"} {
		cases = append(cases, caseDesc{Ups: []upSpec{{Kind: kind, Fate: fSilent}, {Kind: "tcp", Fate: fWorks}}, Forward: "none", K: 1, Loss: "none"})
		cases = append(cases, caseDesc{Ups: []upSpec{{Kind: "tcp", Fate: fRefused}, {Kind: kind, Fate: fSilent}, {Kind: "http", Fate: fWorks}}, Forward: "unreachable", K: 2, Loss: "none"})
	}
	for _, fate := range []string{fSilentAfterAnnounce, fSilentInStartTLS} {
		cases = append(cases, caseDesc{Ups: []upSpec{{Kind: "tcp", Fate: fate}, {Kind: "tcp", Fate: fWorks}}, Forward: "none", K: 1, Loss: "none"})
		cases = append(cases, caseDesc{Ups: []upSpec{{Kind: "tcp", Fate: fRefused}, {Kind: "tcp", Fate: fate}, {Kind: "http", Fate: fWorks}}, Forward: "unreachable", K: 2, Loss: "none"})
	}
	problems := make([]string, len(cases))
	inconcl := make([]bool, len(cases))
	var wg sync.WaitGroup
	for i := range cases {
		wg.Add(1)
		go func(i int) { defer wg.Done(); problems[i], inconcl[i] = runCase(cases[i], bound) }(i)
	}
	wg.Wait()
	for i, d := range cases {
		if inconcl[i] {
			vlib.Rec.Inconclusive("setup")
			continue
		}
		vlib.Rec.Case(fmt.Sprintf("%+v", d), true, describe(d), func() interface{} { return d })
		if problems[i] != "" {
			vlib.Rec.Violation(map[string]interface{}{"property": "C16", "case": d, "problem": problems[i]})
			t.Errorf("C16 %+v: %s", d, problems[i])
		}
	}
}

// TestInsecureUpstreamsAreSkipped enumerates, with security required, every carrier spelling whose first upstream works
// but cannot be secured (no certificate, so no StartTLS) followed by one that can: the policy must settle on the second.
func TestInsecureUpstreamsAreSkipped(t *testing.T) {
	var cases []caseDesc
	for _, kind := range []string{"tcp", "http", "ws", "udp"} {
		cases = append(cases, caseDesc{Ups: []upSpec{{Kind: kind, Fate: fInsecure}, {Kind: "tcp", Fate: fWorks}}, Forward: "none", MustSecure: true, K: 1, Loss: "none"})
		cases = append(cases, caseDesc{Ups: []upSpec{{Kind: kind, Fate: fInsecure}}, Forward: "none", MustSecure: true, K: 1, Loss: "none"})
	}
	problems := make([]string, len(cases))
	inconcl := make([]bool, len(cases))
	var wg sync.WaitGroup
	for i := range cases {
		wg.Add(1)
		go func(i int) { defer wg.Done(); problems[i], inconcl[i] = runCase(cases[i], 15*time.Second) }(i)
	}
	wg.Wait()
	for i, d := range cases {
		if inconcl[i] {
			vlib.Rec.Inconclusive("setup")
			continue
		}
		vlib.Rec.Case(fmt.Sprintf("%+v", d), true, describe(d), func() interface{} { return d })
		if problems[i] != "" {
			vlib.Rec.Violation(map[string]interface{}{"property": "C16", "case": d, "problem": problems[i]})
			t.Errorf("C16 %+v: %s", d, problems[i])
		}
	}
}

func clientConfig(d caseDesc) cert.ClientConfig {
	if d.Verify {
		return cert.ClientConfig{Config: cert.Config{CaCertificate: vlib.GetPKI().CA.CertPEM}}
	}
	return cert.ClientConfig{InsecureSkipVerify: true}
}

// TestFailoverWithVerification: the client checks certificates and the listed upstreams are spelled with different host
// names; every working server presents a certificate for exactly the name it is listed under. Whatever an earlier entry
// of the list did (refused, error status), the first working one must be settled on - what was learnt about one
// upstream (its name, its verification mode) may not leak into the attempt on the next.
func TestFailoverWithVerification(t *testing.T) {
	var cases []caseDesc
	for _, kind := range []string{"tcp+tls", "tcp"} {
		for _, first := range []string{fRefused, fError} {
			cases = append(cases,
				caseDesc{Ups: []upSpec{{Kind: kind, Fate: first, Host: "127.0.0.1"}, {Kind: kind, Fate: fWorks, Host: "localhost"}}, Forward: "none", MustSecure: true, K: 1, Loss: "none", Verify: true},
				caseDesc{Ups: []upSpec{{Kind: kind, Fate: first, Host: "localhost"}, {Kind: kind, Fate: fWorks, Host: "127.0.0.1"}}, Forward: "none", MustSecure: true, K: 2, Loss: "none", Verify: true})
		}
		cases = append(cases, caseDesc{Ups: []upSpec{{Kind: kind, Fate: fWorks, Host: "localhost"}}, Forward: "none", MustSecure: true, K: 1, Loss: "cut-rst", After: 2, Verify: true})
	}
	problems := make([]string, len(cases))
	inconcl := make([]bool, len(cases))
	var wg sync.WaitGroup
	for i := range cases {
		wg.Add(1)
		go func(i int) { defer wg.Done(); problems[i], inconcl[i] = runCase(cases[i], 15*time.Second) }(i)
	}
	wg.Wait()
	for i, d := range cases {
		if inconcl[i] {
			vlib.Rec.Inconclusive("setup")
			continue
		}
		vlib.Rec.Case(fmt.Sprintf("%+v", d), true, append(describe(d), "client-verifies-certificates"), func() interface{} { return d })
		if problems[i] != "" {
			vlib.Rec.Violation(map[string]interface{}{"property": "C16", "case": d, "problem": problems[i]})
			t.Errorf("C16 %+v: %s", d, problems[i])
		}
	}
}

// TestDirectConnectionsHoweverTheyEnd enumerates a reachable forward address whose direct connections end in an orderly
// way, with a reset by the application, or with a reset by the forward target: the upstreams are never contacted.
func TestDirectConnectionsHoweverTheyEnd(t *testing.T) {
	for _, end := range []string{"", "reset-by-application", "reset-by-target"} {
		for _, k := range []int{1, 3} {
			d := caseDesc{Ups: []upSpec{{Kind: "tcp", Fate: fWorks}, {Kind: "http", Fate: fWorks}}, Forward: "reachable", ForwardEnd: end, K: k, Loss: "none"}
			// the forward address of the orderly cases is a unix-domain socket given with its absolute path
			d.ForwardUnix = end == ""
			problem, inconclusive := runCase(d, 15*time.Second)
			if inconclusive {
				vlib.Rec.Inconclusive("setup")
				continue
			}
			vlib.Rec.Case(fmt.Sprintf("%+v", d), true, append(describe(d), "direct-connections-end:"+end), func() interface{} { return d })
			if problem != "" {
				vlib.Rec.Violation(map[string]interface{}{"property": "C16", "case": d, "problem": problem})
				t.Errorf("C16 %+v: %s", d, problem)
			}
		}
	}
}

// TestReconnectKeepsTheConfiguration: after the session to the chosen upstream is lost, the next local connection is served
// again through the same upstream as configured - with everything its address says (here: the shared secret of a UDP
// endpoint, a TLS scheme), not with what is left of it after the first connection.
func TestReconnectKeepsTheConfiguration(t *testing.T) {
	cases := []caseDesc{
		{Ups: []upSpec{{Kind: "udp", Fate: fWorks, Secret: true}}, Forward: "none", K: 1, Loss: "server-restart", After: 2},
		{Ups: []upSpec{{Kind: "udp", Fate: fWorks, Secret: true}}, Forward: "none", K: 2, Loss: "none"},
		{Ups: []upSpec{{Kind: "udp", Fate: fWorks}}, Forward: "none", K: 1, Loss: "server-restart", After: 2},
		{Ups: []upSpec{{Kind: "tcp+tls", Fate: fWorks}}, Forward: "none", K: 1, Loss: "server-restart", After: 2},
	}
	problems := make([]string, len(cases))
	inconcl := make([]bool, len(cases))
	var wg sync.WaitGroup
	for i := range cases {
		wg.Add(1)
		go func(i int) { defer wg.Done(); problems[i], inconcl[i] = runCase(cases[i], 75*time.Second) }(i)
	}
	wg.Wait()
	for i, d := range cases {
		if inconcl[i] {
			vlib.Rec.Inconclusive("setup")
			continue
		}
		vlib.Rec.Case(fmt.Sprintf("%+v", d), true, append(describe(d), "reconnect-keeps-configuration"), func() interface{} { return d })
		if problems[i] != "" {
			vlib.Rec.Violation(map[string]interface{}{"property": "C16", "case": d, "problem": problems[i]})
			t.Errorf("C16 %+v: %s", d, problems[i])
		}
	}
}

// TestUpstreamObjectsConnectAgain: the client re-establishes a lost session by connecting the same configured upstream
// object again (Upstreams.open). For every kind of upstream - among them a UDP endpoint protected by a shared secret - the
// second and third connection of one object must succeed like the first against the unchanged server.
func TestUpstreamObjectsConnectAgain(t *testing.T) {
	old := socketace.HandshakeTimeout
	socketace.HandshakeTimeout = 5 * time.Second
	defer func() { socketace.HandshakeTimeout = old }()
	for _, kind := range []string{"tcp", "tcp+tls", "http", "ws", "udp", "udp+secret"} {
		tgt := vlib.NewTarget("server0", vlib.BannerEchoHandler)
		port := vlib.Port()
		srv, err := startServer(kind, port, true, tgt)
		if err != nil {
			tgt.Close()
			vlib.Rec.Inconclusive("bind")
			continue
		}
		var up upstream.Upstream
		if kind == "udp+secret" {
			up = &upstream.Packet{Address: addr.MustParseAddress(fmt.Sprintf("udp://:s3cret@127.0.0.1:%d", port))}
		} else {
			up = mkUpstream(kind, port)
		}
		d := map[string]interface{}{"kind": kind, "connections_of_one_upstream_object": 3}
		problem := ""
		for attempt := 1; attempt <= 3 && problem == ""; attempt++ {
			done := make(chan error, 1)
			go func() { done <- up.Connect(&cert.ClientConfig{InsecureSkipVerify: true}, false) }()
			select {
			case err := <-done:
				if err != nil {
					problem = fmt.Sprintf("connection %d of the same %s upstream object fails although the server is unchanged: %v", attempt, kind, err)
				} else {
					up.Close()
				}
			case <-time.After(20 * time.Second):
				problem = fmt.Sprintf("connection %d of the same %s upstream object does not return within 20s", attempt, kind)
			}
			time.Sleep(50 * time.Millisecond)
		}
		func() { defer func() { recover() }(); srv.Shutdown() }()
		tgt.Close()
		vlib.Rec.Case(fmt.Sprintf("connect-again %s", kind), true, []string{"upstream-object-connects-again", "kind:" + kind}, func() interface{} { return d })
		if problem != "" {
			vlib.Rec.Violation(map[string]interface{}{"property": "C16", "connect_again": d, "problem": problem})
			t.Errorf("C16 %v: %s", d, problem)
		}
	}
}
