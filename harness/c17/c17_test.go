//go:build verif

package c17

import (
	"fmt"
	"io"
	"net"
	"os"
	"runtime"
	"sync"
	"sync/atomic"
	"testing"
	"time"

	"github.com/bokysan/socketace/v2/internal/socketace"
	"github.com/bokysan/socketace/v2/internal/zzverif/vlib"
	"pgregory.net/rapid"
)

func TestMain(m *testing.M) { vlib.Main(m) }

type config struct {
	name    string
	carrier string
	sec     string
}

var configs = []config{
	{"tcp/plain", vlib.CarTCP, "plain"},
	{"tcp/starttls", vlib.CarTCP, "starttls"},
	{"tcp/tls", vlib.CarTCPTLS, "tls"},
	{"unix/plain", vlib.CarUnix, "plain"},
	{"http/plain", vlib.CarHTTP, "plain"},
	{"http/starttls", vlib.CarHTTP, "starttls"},
	{"https/tls", vlib.CarHTTPS, "tls"},
	{"stdio/plain", vlib.CarStdio, "plain"},
	{"stdio/tls", vlib.CarStdioTLS, "tls"},
	{"udp/plain", vlib.CarUDP, "plain"},
	{"udp/starttls", vlib.CarUDP, "starttls"},
	{"dns/plain", vlib.CarDNS, "plain"},
}

type caseDesc struct {
	Config string `json:"config"`
	Closer string `json:"closer"` // app or target
	Len    int    `json:"len"`
	Parts  []int  `json:"parts,omitempty"`
	Race   bool   `json:"race"` // close issued concurrently with the last write
	// HalfClose: the closing side shuts down its writing direction only (shutdown(SHUT_WR), as nc or a finished
	// HTTP/1.0 client do) and waits for its own connection to end
	HalfClose bool   `json:"half_close,omitempty"`
	RaceUs    int    `json:"race_us"`                   // delay between starting the last write and closing
	Others    int    `json:"others"`                    // other logical connections open meanwhile
	Refusal   bool   `json:"refused_request_meanwhile"` // a request for an unknown channel is refused after the first write
	Active    bool   `json:"others_active"`
	Key       uint64 `json:"key"`
	// PipeDebug: the documented-in-code environment switch SOCKETACE_PIPE_DEBUG=1 (copy loops that also log the data)
	PipeDebug bool `json:"SOCKETACE_PIPE_DEBUG,omitempty"`
}

var boundaries = []int{0, 1, 2, 4095, 4096, 4097, 32639, 32640, 32641, 32767, 32768, 32769, 65535, 65536, 65537}

// closerWrite writes data in parts and closes, optionally racing the close with the last write. It returns the
// number of bytes the writes accepted.
func closerWrite(c net.Conn, data []byte, parts []int, race bool, raceUs int, afterFirst func()) int {
	n, _ := closerWriteHalf(c, data, parts, race, raceUs, afterFirst, false, 0)
	return n
}

// closerWriteHalf: with half the writer shuts down its writing direction only and reports whether its own
// connection ended (end-of-stream or error) within the bound.
func closerWriteHalf(c net.Conn, data []byte, parts []int, race bool, raceUs int, afterFirst func(), half bool, bound time.Duration) (accepted int, selfEnded bool) {
	selfEnded = true
	finish := func() { c.Close() }
	if hc, ok := c.(interface{ CloseWrite() error }); ok && half {
		race = false
		finish = func() {
			hc.CloseWrite()
			_, selfEnded, _ = readToEOF(c, bound)
			c.Close()
		}
	}
	defer func() { finish() }()
	accepted = closerWrite0(c, data, parts, race, raceUs, afterFirst)
	return
}

func closerWrite0(c net.Conn, data []byte, parts []int, race bool, raceUs int, afterFirst func()) int {
	accepted := 0
	rest := data
	var pieces [][]byte
	for _, p := range parts {
		if len(rest) == 0 {
			break
		}
		if p <= 0 {
			p = 1
		}
		if p > len(rest) {
			p = len(rest)
		}
		pieces = append(pieces, rest[:p])
		rest = rest[p:]
	}
	if len(rest) > 0 {
		pieces = append(pieces, rest)
	}
	for i, pc := range pieces {
		last := i == len(pieces)-1
		if last && race {
			var wg sync.WaitGroup
			wg.Add(1)
			n := 0
			go func() {
				defer wg.Done()
				n, _ = c.Write(pc)
			}()
			time.Sleep(time.Duration(raceUs) * time.Microsecond)
			c.Close()
			wg.Wait()
			accepted += n
			return accepted
		}
		n, err := c.Write(pc)
		accepted += n
		if err != nil {
			break
		}
		if i == 0 && afterFirst != nil {
			afterFirst()
		}
	}
	return accepted
}

// readToEOF reads until EOF/error or the deadline; returns data, whether a clean end-of-stream (EOF or reset
// after all data) was seen, and the time it took.
func readToEOF(c net.Conn, d time.Duration) (data []byte, ended bool, endErr error) {
	buf := make([]byte, 64*1024)
	deadline := time.Now().Add(d)
	for {
		c.SetReadDeadline(deadline)
		n, err := c.Read(buf)
		data = append(data, buf[:n]...)
		if err != nil {
			if ne, ok := err.(net.Error); ok && ne.Timeout() {
				return data, false, err
			}
			return data, true, err
		}
	}
}

func runCase(d caseDesc) (problem string, inconclusive bool) {
	if d.PipeDebug {
		os.Setenv("SOCKETACE_PIPE_DEBUG", "1")
		defer os.Unsetenv("SOCKETACE_PIPE_DEBUG")
	}
	var c config
	for _, x := range configs {
		if x.name == d.Config {
			c = x
		}
	}
	payload := vlib.PRF(d.Key, 0, d.Len)
	timeout := 30 * time.Second
	if c.carrier == vlib.CarDNS {
		timeout = 120 * time.Second
	}

	type tgtObs struct {
		data     []byte
		ended    bool
		accepted int
		selfEnd  bool
	}
	obsCh := make(chan tgtObs, 16)
	first := make(chan struct{}, 64)
	// refuse: while the transfer is under way somebody asks the same client for a channel the server does not have
	var p *vlib.Pair
	var refuse func()
	if d.Refusal {
		refuse = func() {
			c, err := p.Dial("nochan")
			if err != nil {
				return
			}
			c.SetDeadline(time.Now().Add(10 * time.Second))
			buf := make([]byte, 8)
			c.Read(buf)
			c.Close()
		}
	}
	mainHandler := func(tc *vlib.TargetConn) {
		first <- struct{}{}
		if d.Closer == "target" {
			n, selfEnd := closerWriteHalf(tc.Conn, payload, d.Parts, d.Race, d.RaceUs, refuse, d.HalfClose, timeout)
			obsCh <- tgtObs{accepted: n, selfEnd: selfEnd}
			return
		}
		data, ended, _ := readToEOF(tc.Conn, timeout)
		tc.Conn.Close()
		obsCh <- tgtObs{data: data, ended: ended}
	}
	build := func(tgt *vlib.Target) vlib.PairConfig {
		pc := vlib.PairConfig{Carrier: c.carrier, ClientInsecure: true,
			Channels:  []vlib.ChannelSpec{{Name: "data", Target: tgt.URL()}, {Name: "other", Target: tgt.URL()}},
			Listeners: []vlib.ListenerSpec{{Channel: "data"}, {Channel: "other"}, {Channel: "nochan"}}}
		if c.sec != "plain" {
			pc.ServerCert = &vlib.GetPKI().ServerGood
		}
		return pc
	}
	var tgt *vlib.Target
	var done func(bool)
	if c.carrier == vlib.CarDNS {
		var err error
		p, done, err = vlib.SharedDNSPair("c17/"+c.name, func() (*vlib.Pair, error) {
			t := vlib.NewTarget("data", nil)
			np, err := vlib.StartPair(build(t))
			if err != nil {
				t.Close()
				return nil, err
			}
			dnsTarget = t
			return np, nil
		})
		if err != nil {
			return "pair start failed: " + err.Error(), false
		}
		tgt = dnsTarget
	} else {
		tgt = vlib.NewTarget("data", nil)
		np, err := vlib.StartPair(build(tgt))
		if err != nil {
			tgt.Close()
			if vlib.IsBindError(err) {
				return "", true
			}
			return "pair start failed: " + err.Error(), false
		}
		p = np
		done = func(bool) { np.Close(); tgt.Close() }
	}
	failed := true
	defer func() { done(failed) }()

	// other logical connections, opened first and kept open
	tgt.SetHandler(vlib.EchoHandler)
	var others []net.Conn
	for i := 0; i < d.Others; i++ {
		oc, err := p.Dial("other")
		if err != nil {
			return "dial other: " + err.Error(), false
		}
		defer oc.Close()
		if msg := echoOnce(oc, 16, timeout); msg != "" {
			return "other connection does not work: " + msg, false
		}
		others = append(others, oc)
	}
	stopActive := make(chan struct{})
	var actWG sync.WaitGroup
	if d.Active {
		for _, oc := range others {
			actWG.Add(1)
			go func(oc net.Conn) {
				defer actWG.Done()
				for {
					select {
					case <-stopActive:
						return
					default:
					}
					if echoOnce(oc, 2000, timeout) != "" {
						return
					}
				}
			}(oc)
		}
	}
	defer func() {
		select {
		case <-stopActive:
		default:
			close(stopActive)
		}
		actWG.Wait()
	}()

	tgt.SetHandler(mainHandler)
	app, err := p.Dial("data")
	if err != nil {
		return "dial: " + err.Error(), false
	}
	defer app.Close()
	start := time.Now()
	if d.Closer == "app" {
		// make sure the logical connection exists end to end before data+close are issued? No: the property
		// holds from the first byte; the application just writes and closes.
		accepted, selfEnd := closerWriteHalf(app, payload, d.Parts, d.Race, d.RaceUs, refuse, d.HalfClose, timeout)
		if !selfEnd {
			return fmt.Sprintf("application wrote %d bytes and shut down its writing direction; its own connection did not end within %v", accepted, timeout), false
		}
		var obs tgtObs
		select {
		case obs = <-obsCh:
		case <-time.After(timeout + 5*time.Second):
			return fmt.Sprintf("target saw no end of the connection within %v (accepted %d bytes); log: %v", timeout, accepted, vlib.Tap.Tail(5)), false
		}
		want := payload[:accepted]
		if off := vlib.FirstDiff(obs.data, want); off != -1 {
			return fmt.Sprintf("application wrote %d bytes (accepted) and closed; target received %d bytes, first difference at %d, ended=%v after %v; log: %v",
				accepted, len(obs.data), off, obs.ended, time.Since(start), vlib.Tap.Tail(5)), false
		}
		if !obs.ended {
			return fmt.Sprintf("target received all %d bytes but no end-of-stream within %v", accepted, timeout), false
		}
	} else {
		data, ended, endErr := readToEOF(app, timeout)
		var obs tgtObs
		select {
		case obs = <-obsCh:
		case <-time.After(timeout + 5*time.Second):
			return "target writer did not finish", false
		}
		if !obs.selfEnd {
			return fmt.Sprintf("target wrote %d bytes and shut down its writing direction; the application got its end-of-stream (%v) but the target's own connection did not end within %v", obs.accepted, ended, timeout), false
		}
		want := payload[:obs.accepted]
		if off := vlib.FirstDiff(data, want); off != -1 {
			return fmt.Sprintf("target wrote %d bytes (accepted) and closed; application received %d bytes, first difference at %d, ended=%v (%v) after %v; log: %v",
				obs.accepted, len(data), off, ended, endErr, time.Since(start), vlib.Tap.Tail(5)), false
		}
		if !ended {
			return fmt.Sprintf("application received all %d bytes but no end-of-stream within %v", obs.accepted, timeout), false
		}
	}
	// the other connections must have survived
	close(stopActive)
	actWG.Wait()
	tgt.SetHandler(vlib.EchoHandler)
	for i, oc := range others {
		if msg := echoOnce(oc, 64, timeout); msg != "" {
			return fmt.Sprintf("other connection %d stopped working after the close: %s", i, msg), false
		}
	}
	failed = false
	return "", false
}

var dnsTarget *vlib.Target

func echoOnce(c net.Conn, n int, d time.Duration) string {
	data := vlib.PRF(uint64(n)+5, 0, n)
	c.SetWriteDeadline(time.Now().Add(d))
	if _, err := c.Write(data); err != nil {
		return "write: " + err.Error()
	}
	got, err := vlib.ReadFullTimeout(c, n, d)
	if vlib.FirstDiff(got, data) != -1 {
		return fmt.Sprintf("echo mismatch: %d of %d bytes (%v)", len(got), n, err)
	}
	return ""
}

func TestOrderlyClose(t *testing.T) {
	rapid.Check(t, func(rt *rapid.T) {
		c := configs[rapid.IntRange(0, len(configs)-1).Draw(rt, "config")]
		max := vlib.Pick(300*1024, 4*1024*1024)
		if c.carrier == vlib.CarDNS {
			max = vlib.Pick(20*1024, 200*1024)
		}
		d := caseDesc{Config: c.name}
		d.Closer = []string{"app", "target"}[rapid.IntRange(0, 1).Draw(rt, "closer")]
		switch rapid.IntRange(0, 3).Draw(rt, "lenKind") {
		case 0, 1:
			d.Len = boundaries[rapid.IntRange(0, len(boundaries)-1).Draw(rt, "lenB")]
		case 2:
			d.Len = rapid.IntRange(0, 3000).Draw(rt, "lenSmall")
		default:
			d.Len = rapid.IntRange(0, max).Draw(rt, "lenAny")
		}
		if d.Len > max {
			d.Len = max
		}
		if rapid.Bool().Draw(rt, "split") {
			n := rapid.IntRange(1, 6).Draw(rt, "nparts")
			for i := 0; i < n; i++ {
				d.Parts = append(d.Parts, rapid.IntRange(1, 70000).Draw(rt, "part"))
			}
		}
		d.Race = rapid.IntRange(0, 2).Draw(rt, "race") == 0 && d.Len > 0
		d.HalfClose = !d.Race && rapid.IntRange(0, 2).Draw(rt, "halfClose") == 0
		if d.Race {
			d.RaceUs = rapid.IntRange(0, 400).Draw(rt, "raceUs")
		}
		d.Others = rapid.IntRange(0, 2).Draw(rt, "others")
		d.PipeDebug = c.carrier != vlib.CarDNS && rapid.IntRange(0, 5).Draw(rt, "pipeDebug") == 0
		d.Refusal = len(d.Parts) > 0 && rapid.IntRange(0, 2).Draw(rt, "refusal") == 0
		d.Active = d.Others > 0 && rapid.Bool().Draw(rt, "active")
		d.Key = uint64(rapid.IntRange(1, 1<<30).Draw(rt, "key"))
		vlib.Tap.Reset()
		problem, inconclusive := runCase(d)
		if inconclusive {
			vlib.Rec.Inconclusive("bind")
			return
		}
		labels := []string{"cfg:" + c.name, "closer:" + d.Closer, fmt.Sprintf("others:%d", d.Others), fmt.Sprintf("half-close:%v", d.HalfClose), fmt.Sprintf("pipe-debug:%v", d.PipeDebug)}
		if d.Race {
			labels = append(labels, "race")
		}
		if d.Refusal {
			labels = append(labels, "refusal-meanwhile")
		}
		switch {
		case d.Len == 0:
			labels = append(labels, "len:0")
		case d.Len <= 4096:
			labels = append(labels, "len:<=4096")
		case d.Len <= 65536:
			labels = append(labels, "len:<=65536")
		default:
			labels = append(labels, "len:>65536")
		}
		nontrivial := d.Len > 0
		vlib.Rec.Case(fmt.Sprintf("%+v", d), nontrivial, labels, func() interface{} { return d })
		if problem != "" {
			vlib.Rec.Violation(map[string]interface{}{"property": "C17", "case": d, "problem": problem})
			rt.Fatalf("C17 %+v: %s", d, problem)
		}
	})
}

var _ = io.EOF

// TestWriteThenCloseHammer: the end that answers writes a few bytes and closes straight away, thousands of times over
// one session and under GOMAXPROCS 2 (where the data frame and the end-of-stream frame most often reach the reader
// together; measured on the multiplexer alone: ~4 losses per 20000 streams at GOMAXPROCS 2, none at 1 or 16): every byte must still arrive before the end-of-stream.
func TestWriteThenCloseHammer(t *testing.T) {
	n := vlib.Pick(40000, 400000)
	for round, procs := range []int{2, 2, 0} {
		if round == 1 {
			hammerAppWritesAndCloses(t, n/2, runtime.NumCPU())
			continue
		}
		if round == 2 {
			hammerTargetWritesAndClosesInParallel(t, n/2, 8)
			continue
		}
		old := runtime.GOMAXPROCS(procs)
		func() {
			defer runtime.GOMAXPROCS(old)
			tgt := vlib.NewTarget("data", func(tc *vlib.TargetConn) {
				b := make([]byte, 1)
				if _, err := io.ReadFull(tc.Conn, b); err != nil {
					tc.Conn.Close()
					return
				}
				k := int(b[0])%97 + 1
				tc.Conn.Write(vlib.PRF(uint64(k), 0, k))
				tc.Conn.Close()
			})
			defer tgt.Close()
			p, err := vlib.StartPair(vlib.PairConfig{Carrier: vlib.CarTCP,
				Channels:  []vlib.ChannelSpec{{Name: "data", Target: tgt.URL()}},
				Listeners: []vlib.ListenerSpec{{Channel: "data"}}})
			if err != nil {
				vlib.Rec.Inconclusive("bind")
				return
			}
			defer p.Close()
			for i := 0; i < n/2; i++ {
				c, err := p.Dial("data")
				if err != nil {
					t.Fatalf("dial: %v", err)
				}
				sel := byte(i * 7)
				k := int(sel)%97 + 1
				c.Write([]byte{sel})
				data, ended, endErr := readToEOF(c, 20*time.Second)
				c.Close()
				want := vlib.PRF(uint64(k), 0, k)
				if i%500 == 0 {
					vlib.Rec.Case(fmt.Sprintf("hammer|%d|%d", procs, i), true, []string{"write-then-close-hammer", fmt.Sprintf("gomaxprocs:%d", procs)}, func() interface{} {
						return map[string]interface{}{"test": "write-then-close-hammer", "gomaxprocs": procs, "connection": i, "bytes": k}
					})
				}
				if vlib.FirstDiff(data, want) != -1 || !ended {
					msg := fmt.Sprintf("connection %d (GOMAXPROCS %d): target wrote %d bytes and closed at once; application received %d bytes, ended=%v (%v)", i, procs, k, len(data), ended, endErr)
					vlib.Rec.Violation(map[string]interface{}{"property": "C17", "test": "write-then-close-hammer", "gomaxprocs": procs, "connection": i, "problem": msg})
					t.Fatalf("C17 %s", msg)
				}
			}
			vlib.Rec.Extra(fmt.Sprintf("hammer_connections_gomaxprocs_%d", procs), n/2)
		}()
	}
}

// hammerTargetWritesAndClosesInParallel: the first hammer with several applications at a time, all processors, and a
// target on a unix-domain socket (the end of the target's connection reaches the server sooner after its last bytes than
// over TCP): the target writes 1-97 bytes and closes at once, the application must read exactly those bytes before
// end-of-stream.
func hammerTargetWritesAndClosesInParallel(t *testing.T, n, workers int) {
	tgt := vlib.NewUnixTarget("data", func(tc *vlib.TargetConn) {
		b := make([]byte, 1)
		if _, err := io.ReadFull(tc.Conn, b); err != nil {
			tc.Conn.Close()
			return
		}
		k := int(b[0])%97 + 1
		tc.Conn.Write(vlib.PRF(uint64(k), 0, k))
		tc.Conn.Close()
	})
	defer tgt.Close()
	p, err := vlib.StartPair(vlib.PairConfig{Carrier: vlib.CarTCP,
		Channels:  []vlib.ChannelSpec{{Name: "data", Target: tgt.URL()}},
		Listeners: []vlib.ListenerSpec{{Channel: "data"}}})
	if err != nil {
		vlib.Rec.Inconclusive("bind")
		return
	}
	defer p.Close()
	var next int64
	var failed int32
	var mu sync.Mutex
	firstMsg := ""
	var wg sync.WaitGroup
	for w := 0; w < workers; w++ {
		wg.Add(1)
		go func() {
			defer wg.Done()
			for atomic.LoadInt32(&failed) == 0 {
				i := int(atomic.AddInt64(&next, 1))
				if i > n {
					return
				}
				c, err := p.Dial("data")
				if err != nil {
					continue
				}
				sel := byte(i * 7)
				k := int(sel)%97 + 1
				c.Write([]byte{sel})
				data, ended, endErr := readToEOF(c, 20*time.Second)
				c.Close()
				if i%2000 == 0 {
					vlib.Rec.Case(fmt.Sprintf("hammer-parallel|%d", i), true, []string{"write-then-close-hammer", "parallel-applications"}, func() interface{} {
						return map[string]interface{}{"test": "write-then-close-hammer", "applications_at_a_time": workers, "connection": i, "bytes": k}
					})
				}
				if vlib.FirstDiff(data, vlib.PRF(uint64(k), 0, k)) != -1 || !ended {
					if atomic.CompareAndSwapInt32(&failed, 0, 1) {
						mu.Lock()
						firstMsg = fmt.Sprintf("connection %d (%d applications at a time, target on a unix socket): target wrote %d bytes and closed at once; application received %d bytes, ended=%v (%v)", i, workers, k, len(data), ended, endErr)
						mu.Unlock()
					}
					return
				}
			}
		}()
	}
	wg.Wait()
	vlib.Rec.Extra("hammer_connections_parallel", int(atomic.LoadInt64(&next)))
	if firstMsg != "" {
		vlib.Rec.Violation(map[string]interface{}{"property": "C17", "test": "write-then-close-hammer", "applications_at_a_time": workers, "problem": firstMsg})
		t.Fatalf("C17 %s", firstMsg)
	}
}

// hammerAppWritesAndCloses is the other direction of the hammer: three applications at a time write 5-101 bytes
// (starting with a connection number) and close at once; the target must have received exactly those bytes when it sees
// end-of-stream.
func hammerAppWritesAndCloses(t *testing.T, n, procs int) {
	old := runtime.GOMAXPROCS(procs)
	defer runtime.GOMAXPROCS(old)
	type report struct {
		data  []byte
		ended bool
	}
	var pending sync.Map // connection number -> chan report
	orphans := make(chan report, 64)
	tgt := vlib.NewTarget("data", func(tc *vlib.TargetConn) {
		data, ended, _ := readToEOF(tc.Conn, 20*time.Second)
		tc.Conn.Close()
		if len(data) >= 4 {
			id := int(data[0])<<24 | int(data[1])<<16 | int(data[2])<<8 | int(data[3])
			if ch, ok := pending.Load(id); ok {
				ch.(chan report) <- report{data, ended}
				return
			}
		}
		select {
		case orphans <- report{data, ended}:
		default:
		}
	})
	defer tgt.Close()
	p, err := vlib.StartPair(vlib.PairConfig{Carrier: vlib.CarTCP,
		Channels:  []vlib.ChannelSpec{{Name: "data", Target: tgt.URL()}},
		Listeners: []vlib.ListenerSpec{{Channel: "data"}}})
	if err != nil {
		vlib.Rec.Inconclusive("bind")
		return
	}
	defer p.Close()
	var next int32
	var failed atomic.Value
	var wg sync.WaitGroup
	for w := 0; w < 3; w++ {
		wg.Add(1)
		go func() {
			defer wg.Done()
			for failed.Load() == nil {
				i := int(atomic.AddInt32(&next, 1))
				if i > n {
					return
				}
				k := (i*7)%97 + 5
				want := vlib.PRF(uint64(k)+1000, 0, k)
				want[0], want[1], want[2], want[3] = byte(i>>24), byte(i>>16), byte(i>>8), byte(i)
				ch := make(chan report, 1)
				pending.Store(i, ch)
				c, err := p.Dial("data")
				if err != nil {
					failed.Store(fmt.Sprintf("dial: %v", err))
					return
				}
				c.Write(want)
				c.Close()
				if i%500 == 0 {
					vlib.Rec.Case(fmt.Sprintf("hammer-up|%d|%d", procs, i), true, []string{"write-then-close-hammer", "direction:application-to-target", fmt.Sprintf("gomaxprocs:%d", procs)}, func() interface{} {
						return map[string]interface{}{"test": "write-then-close-hammer", "direction": "application-to-target", "gomaxprocs": procs, "connection": i, "bytes": k}
					})
				}
				msg := ""
				select {
				case r := <-ch:
					if vlib.FirstDiff(r.data, want) != -1 || !r.ended {
						msg = fmt.Sprintf("connection %d (GOMAXPROCS %d, three applications at a time): application wrote %d bytes and closed at once; target received %d bytes, ended=%v", i, procs, k, len(r.data), r.ended)
					}
				case r := <-orphans:
					msg = fmt.Sprintf("connection %d (GOMAXPROCS %d, three applications at a time): an application wrote its bytes and closed at once; a target connection ended after %d bytes without the connection number (ended=%v)", i, procs, len(r.data), r.ended)
				case <-time.After(25 * time.Second):
					msg = fmt.Sprintf("connection %d (GOMAXPROCS %d): application wrote %d bytes and closed at once; the target saw no end of its connection within 25s", i, procs, k)
				}
				pending.Delete(i)
				if msg != "" {
					failed.Store(msg)
					return
				}
			}
		}()
	}
	wg.Wait()
	if m := failed.Load(); m != nil {
		msg := m.(string)
		vlib.Rec.Violation(map[string]interface{}{"property": "C17", "test": "write-then-close-hammer", "direction": "application-to-target", "gomaxprocs": procs, "problem": msg})
		t.Fatalf("C17 %s", msg)
	}
	vlib.Rec.Extra(fmt.Sprintf("hammer_connections_application_to_target_gomaxprocs_%d", procs), n)
}

// TestLongLivedConnection: the property holds for connections of any age, in particular for one that outlives the
// session negotiation's own time limit (an exported variable, lowered here from 30 s to 2 s): on every carrier one logical
// connection is opened, used, left idle until the limit has passed, used again in both directions and closed by either
// side; everything written before the close and then end-of-stream must arrive.
func TestLongLivedConnection(t *testing.T) {
	old := socketace.HandshakeTimeout
	socketace.HandshakeTimeout = 2 * time.Second
	defer func() { socketace.HandshakeTimeout = old }()
	type result struct {
		d       map[string]interface{}
		problem string
		skip    bool
	}
	var todo []config
	for _, c := range configs {
		if c.carrier != vlib.CarDNS { // the DNS pair is process-wide and shared with the other tests of this package
			todo = append(todo, c, c)
		}
	}
	results := make([]result, len(todo))
	var wg sync.WaitGroup
	for i, c := range todo {
		wg.Add(1)
		go func(i int, c config) {
			defer wg.Done()
			closer := []string{"app", "target"}[i%2]
			d := map[string]interface{}{"config": c.name, "closer": closer, "idle_s": 2.6, "negotiation_limit_s": 2}
			results[i].d = d
			part1, part2 := vlib.PRF(uint64(500+i), 0, 40000), vlib.PRF(uint64(600+i), 0, 70000)
			phase2 := make(chan struct{})
			type obs struct {
				data  []byte
				ended bool
			}
			tgtObs := make(chan obs, 1)
			tgt := vlib.NewTarget("data", func(tc *vlib.TargetConn) {
				defer tc.Conn.Close()
				if closer == "target" {
					tc.Conn.Write(part1)
					<-phase2
					tc.Conn.Write(part2)
					return // closes
				}
				data, ended, _ := readToEOF(tc.Conn, 30*time.Second)
				tgtObs <- obs{data, ended}
			})
			defer tgt.Close()
			pc := vlib.PairConfig{Carrier: c.carrier, ClientInsecure: true,
				Channels:  []vlib.ChannelSpec{{Name: "data", Target: tgt.URL()}},
				Listeners: []vlib.ListenerSpec{{Channel: "data"}}}
			if c.sec != "plain" {
				pc.ServerCert = &vlib.GetPKI().ServerGood
			}
			p, err := vlib.StartPair(pc)
			if err != nil {
				results[i].skip = true
				return
			}
			defer p.Close()
			app, err := p.Dial("data")
			if err != nil {
				results[i].problem = "dial: " + err.Error()
				return
			}
			defer app.Close()
			want := append(append([]byte{}, part1...), part2...)
			if closer == "app" {
				app.SetWriteDeadline(time.Now().Add(20 * time.Second))
				if _, err := app.Write(part1); err != nil {
					results[i].problem = "first write: " + err.Error()
					return
				}
				time.Sleep(2600 * time.Millisecond)
				app.SetWriteDeadline(time.Now().Add(20 * time.Second))
				n, werr := app.Write(part2)
				app.Close()
				select {
				case o := <-tgtObs:
					if off := vlib.FirstDiff(o.data, want[:len(part1)+n]); off != -1 {
						results[i].problem = fmt.Sprintf("the application wrote %d bytes, idled 2.6s, wrote %d more (accepted %d, %v) and closed; the target received %d bytes, first difference at %d, end-of-stream=%v", len(part1), len(part2), n, werr, len(o.data), off, o.ended)
					} else if !o.ended {
						results[i].problem = "the target received everything but no end-of-stream"
					}
				case <-time.After(35 * time.Second):
					results[i].problem = "the target saw no end of the connection within 35s"
				}
				return
			}
			got, _ := vlib.ReadFullTimeout(app, len(part1), 20*time.Second)
			if vlib.FirstDiff(got, part1) != -1 {
				results[i].problem = fmt.Sprintf("first part: %d of %d bytes", len(got), len(part1))
				return
			}
			time.Sleep(2600 * time.Millisecond)
			close(phase2)
			rest, ended, rerr := readToEOF(app, 30*time.Second)
			if off := vlib.FirstDiff(rest, part2); off != -1 {
				results[i].problem = fmt.Sprintf("the target wrote %d bytes after the connection had idled 2.6s and closed; the application received %d, first difference at %d (%v)", len(part2), len(rest), off, rerr)
			} else if !ended {
				results[i].problem = "the application received everything but no end-of-stream"
			}
		}(i, c)
	}
	wg.Wait()
	for _, r := range results {
		if r.skip {
			vlib.Rec.Inconclusive("setup")
			continue
		}
		vlib.Rec.Case(fmt.Sprintf("long-lived %v", r.d), true, []string{"long-lived", "cfg:" + fmt.Sprint(r.d["config"]), "closer:" + fmt.Sprint(r.d["closer"])}, func() interface{} { return r.d })
		if r.problem != "" {
			vlib.Rec.Violation(map[string]interface{}{"property": "C17", "case": r.d, "problem": r.problem})
			t.Errorf("C17 long-lived %v: %s", r.d, r.problem)
		}
	}
}
