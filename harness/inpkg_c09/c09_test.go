//go:build verif

package dns

import (
	"bytes"
	"fmt"
	"reflect"
	"strings"
	"testing"

	"github.com/bokysan/socketace/v2/internal/streams/dns/commands"
	"github.com/bokysan/socketace/v2/internal/streams/dns/util"
	"github.com/bokysan/socketace/v2/internal/util/enc"
	vlib "github.com/bokysan/socketace/v2/internal/zzverif/vcore"
	mdns "github.com/miekg/dns"
	"golang.org/x/net/dns/dnsmessage"
	"pgregory.net/rapid"
)

func TestMain(m *testing.M) { vlib.Main(m) }

// codecs the client can select for the upstream direction (AutodetectEncodingUpstream + Base32 fall-back)
var upCodecs = []enc.Encoder{enc.Base32Encoding, enc.Base64Encoding, enc.Base64uEncoding, enc.Base85Encoding, enc.Base91Encoding, enc.Base128Encoding}

var allCodecs = []enc.Encoder{enc.Base32Encoding, enc.Base64Encoding, enc.Base64uEncoding, enc.Base85Encoding, enc.Base91Encoding, enc.Base128Encoding, enc.Base192Encoding, enc.RawEncoding}

var qtypes = []dnsmessage.Type{util.QueryTypeNull, util.QueryTypePrivate, util.QueryTypeTxt, util.QueryTypeSrv, util.QueryTypeMx, util.QueryTypeCname, util.QueryTypeAAAA, util.QueryTypeA}

func drawDomain(rt *rapid.T) string {
	n := rapid.IntRange(1, 4).Draw(rt, "labels")
	var ls []string
	for i := 0; i < n; i++ {
		max := 30
		if n == 1 {
			max = 60
		}
		ls = append(ls, rapid.StringMatching(fmt.Sprintf(`[a-zA-Z][a-zA-Z0-9]{0,%d}`, rapid.IntRange(0, max).Draw(rt, "llen"))).Draw(rt, "label"))
	}
	d := strings.Join(ls, ".")
	if len(d) < 3 {
		d += ".tld"
	}
	if len(d) > 120 {
		d = d[:120]
		d = strings.TrimRight(d, ".")
	}
	return d
}

// upstreamBudget is the fragment size the real client computes for (domain, codec).
func upstreamBudget(domain string, e enc.Encoder) uint32 {
	dc := &ClientDnsConnection{Serializer: commands.Serializer{Domain: domain, Upstream: util.UpstreamConfig{Encoder: e}}}
	return dc.getUpstreamMtu()
}

func boolPtr(rt *rapid.T, label string) *bool {
	switch rapid.IntRange(0, 2).Draw(rt, label) {
	case 0:
		return nil
	case 1:
		t := true
		return &t
	default:
		f := false
		return &f
	}
}

// wireLabels returns the label lengths and the total name length (octets, excluding the root) of a packed name.
func wireLabels(name string) ([]int, int, error) {
	buf := make([]byte, 512)
	off, err := mdns.PackDomainName(name, buf, 0, nil, false)
	if err != nil {
		return nil, 0, err
	}
	var ls []int
	total := 0
	for i := 0; i < off; {
		l := int(buf[i])
		if l == 0 {
			break
		}
		ls = append(ls, l)
		total += l + 1
		i += l + 1
	}
	return ls, total - 1, nil
}

type reqCase struct {
	Kind    string
	Codec   string
	Domain  string
	QType   string
	Request commands.Request
	Budget  uint32
	PayLen  int
	Near    bool
}

func drawRequest(rt *rapid.T) reqCase {
	c := reqCase{}
	e := upCodecs[rapid.IntRange(0, len(upCodecs)-1).Draw(rt, "codec")]
	c.Codec = e.Name()
	c.Domain = drawDomain(rt)
	c.Budget = upstreamBudget(c.Domain, e)
	uid := uint16(rapid.IntRange(0, 1295).Draw(rt, "uid"))
	switch rapid.IntRange(0, 7).Draw(rt, "command") {
	case 0:
		c.Kind = "version"
		c.Request = &commands.VersionRequest{ClientVersion: rapid.Uint32().Draw(rt, "ver")}
	case 1:
		c.Kind = "set-options"
		r := &commands.SetOptionsRequest{UserId: uid, LazyMode: boolPtr(rt, "lazy"), MultiQuery: boolPtr(rt, "multi"), Closed: boolPtr(rt, "closed")}
		if k := rapid.IntRange(0, len(allCodecs)).Draw(rt, "down"); k < len(allCodecs) {
			r.DownstreamEncoder = allCodecs[k]
		}
		if k := rapid.IntRange(0, len(allCodecs)).Draw(rt, "up"); k < len(allCodecs) {
			r.UpstreamEncoder = allCodecs[k]
		}
		if rapid.Bool().Draw(rt, "hasFrag") {
			// 0xFFFFFFFF is the wire encoding of "not set" and therefore not a settable value
			f := rapid.Uint32Range(0, 0xFFFFFFFE).Draw(rt, "frag")
			if rapid.Bool().Draw(rt, "fragEdge") {
				f = []uint32{0, 1, 2, 255, 256, 768, 1200, 8192, 65535, 0x7FFFFFFF, 0x80000000, 0xFFFFFFFE}[rapid.IntRange(0, 11).Draw(rt, "fragE")]
			}
			r.DownstreamFragmentSize = &f
		}
		c.Request = r
	case 2:
		c.Kind = "downstream-codec-probe"
		c.Request = &commands.TestDownstreamEncoderRequest{DownstreamEncoder: allCodecs[rapid.IntRange(0, len(allCodecs)-1).Draw(rt, "denc")]}
	case 3:
		c.Kind = "upstream-codec-probe"
		var pat []byte
		pats := e.TestPatterns()
		if len(pats) > 0 && rapid.Bool().Draw(rt, "stockPattern") {
			pat = pats[rapid.IntRange(0, len(pats)-1).Draw(rt, "pat")]
		} else {
			// a pattern over the codec's own output alphabet, at most 59 bytes, starting with the case probe
			alpha := e.Encode(vlib.PRF(uint64(rapid.IntRange(0, 1000).Draw(rt, "seed")), 0, 200))
			n := rapid.IntRange(0, 57).Draw(rt, "plen")
			pat = append([]byte("aA"), alpha[:n]...)
		}
		c.Request = &commands.TestUpstreamEncoderRequest{UserId: uid, Pattern: pat}
	case 4:
		c.Kind = "fragment-size-probe"
		f := rapid.Uint32().Draw(rt, "fsize")
		if rapid.Bool().Draw(rt, "fsizeEdge") {
			f = []uint32{0, 1, 2, 768, 8192, 0xFFFFFFFF, 0x80000000}[rapid.IntRange(0, 6).Draw(rt, "fsizeE")]
		}
		// the client pads the probe's name up to the longest data string the domain allows
		pad := 0
		if rapid.Bool().Draw(rt, "padded") {
			pad = util.GetLongestDataString(c.Domain) - 13 - rapid.IntRange(0, 9).Draw(rt, "padShort")
			if pad < 0 {
				pad = 0
			}
		}
		c.Request = &commands.TestDownstreamFragmentSizeRequest{UserId: uid, FragmentSize: f, Padding: pad}
		c.Near = pad > 0
	default:
		c.Kind = "packet"
		r := &commands.PacketRequest{UserId: uid, LastAckedSeqNo: uint16(rapid.IntRange(0, 65535).Draw(rt, "ack"))}
		if rapid.IntRange(0, 5).Draw(rt, "hasPacket") != 0 {
			n := 0
			switch rapid.IntRange(0, 3).Draw(rt, "lenKind") {
			case 0:
				n = rapid.IntRange(0, int(c.Budget)).Draw(rt, "len")
			case 1:
				n = int(c.Budget) - rapid.IntRange(0, 8).Draw(rt, "below")
				if n < 0 {
					n = 0
				}
			case 2:
				n = rapid.IntRange(0, 8).Draw(rt, "tiny")
			default:
				n = int(c.Budget)
			}
			if n > int(c.Budget) {
				n = int(c.Budget)
			}
			var data []byte
			switch rapid.IntRange(0, 3).Draw(rt, "content") {
			case 0:
				data = make([]byte, n)
			case 1:
				data = bytes.Repeat([]byte{0xff}, n)
			default:
				data = vlib.PRF(rapid.Uint64().Draw(rt, "key"), 0, n)
			}
			r.Packet = &util.Packet{SeqNo: uint16(rapid.IntRange(0, 65535).Draw(rt, "seq")), Data: data}
			c.PayLen = n
			c.Near = n >= int(c.Budget)-8
		}
		c.Request = r
	}
	return c
}

func sameRequest(a, b commands.Request) string {
	if reflect.TypeOf(a) != reflect.TypeOf(b) {
		return fmt.Sprintf("decoded as %T, sent %T", b, a)
	}
	switch x := a.(type) {
	case *commands.PacketRequest:
		y := b.(*commands.PacketRequest)
		if x.UserId != y.UserId || x.LastAckedSeqNo != y.LastAckedSeqNo {
			return fmt.Sprintf("user/ack differ: sent %d/%d got %d/%d", x.UserId, x.LastAckedSeqNo, y.UserId, y.LastAckedSeqNo)
		}
		if (x.Packet == nil) != (y.Packet == nil) {
			return fmt.Sprintf("packet presence differs: sent %v got %v", x.Packet != nil, y.Packet != nil)
		}
		if x.Packet != nil {
			if x.Packet.SeqNo != y.Packet.SeqNo {
				return fmt.Sprintf("sequence number differs: sent %d got %d", x.Packet.SeqNo, y.Packet.SeqNo)
			}
			if !bytes.Equal(x.Packet.Data, y.Packet.Data) {
				return fmt.Sprintf("payload differs: sent %d bytes got %d bytes, first difference at %d", len(x.Packet.Data), len(y.Packet.Data), vlib.FirstDiff(x.Packet.Data, y.Packet.Data))
			}
		}
	case *commands.TestDownstreamFragmentSizeRequest:
		y := b.(*commands.TestDownstreamFragmentSizeRequest)
		// the padding is filler, not a field: it is not transmitted as a value
		if x.UserId != y.UserId || x.FragmentSize != y.FragmentSize {
			return fmt.Sprintf("fields differ: sent %+v got %+v", x, y)
		}
	case *commands.TestUpstreamEncoderRequest:
		y := b.(*commands.TestUpstreamEncoderRequest)
		if x.UserId != y.UserId || !bytes.Equal(x.Pattern, y.Pattern) {
			return fmt.Sprintf("user/pattern differ: sent %d/%q got %d/%q", x.UserId, x.Pattern, y.UserId, y.Pattern)
		}
	default:
		if !reflect.DeepEqual(a, b) {
			return fmt.Sprintf("fields differ: sent %+v got %+v", a, b)
		}
	}
	return ""
}

// wireRoundTrip runs one request through the real pipeline; returns a failure description or "".
func wireRoundTrip(c reqCase, qt dnsmessage.Type) (failure string) {
	defer func() {
		if r := recover(); r != nil {
			failure = fmt.Sprintf("panic: %v", r)
		}
	}()
	var e enc.Encoder
	for _, x := range upCodecs {
		if x.Name() == c.Codec {
			e = x
		}
	}
	client := commands.Serializer{Domain: c.Domain, Upstream: util.UpstreamConfig{Encoder: e, QueryType: &qt}}
	msg, err := client.EncodeDnsRequestWithParams(c.Request, qt, e)
	if err != nil {
		return fmt.Sprintf("client could not form the request (payload %d <= budget %d): %v", c.PayLen, c.Budget, err)
	}
	if len(msg.Question) != 1 {
		return fmt.Sprintf("%d questions emitted, want 1", len(msg.Question))
	}
	ls, total, err := wireLabels(msg.Question[0].Name)
	if err != nil {
		return fmt.Sprintf("query name is not a valid DNS name: %v (%q)", err, msg.Question[0].Name)
	}
	for _, l := range ls {
		if l > 63 {
			return fmt.Sprintf("label of %d octets", l)
		}
	}
	if total > 253 {
		return fmt.Sprintf("name of %d octets", total)
	}
	packed, err := msg.Pack()
	if err != nil {
		return fmt.Sprintf("DNS wire encoding failed: %v", err)
	}
	var got mdns.Msg
	if err := got.Unpack(packed); err != nil {
		return fmt.Sprintf("DNS wire decoding failed: %v", err)
	}
	if got.Question[0].Qtype != uint16(qt) {
		return fmt.Sprintf("query type changed on the wire: %d -> %d", qt, got.Question[0].Qtype)
	}
	// the server may see the domain part in a different case
	server := commands.Serializer{Domain: strings.ToLower(c.Domain), Upstream: util.UpstreamConfig{Encoder: e}}
	raw := commands.ComposeRequest(&got, server.Domain)
	dec, err := server.DecodeDnsRequest(raw)
	if err != nil {
		return fmt.Sprintf("server could not decode the request: %v", err)
	}
	return sameRequest(c.Request, dec)
}

func TestRequestsSurviveTheWire(t *testing.T) { rapid.Check(t, propRequestSurvivesTheWire) }

// FuzzRequestsSurviveTheWire drives the same property from coverage-guided byte strings (thorough tier).
func FuzzRequestsSurviveTheWire(f *testing.F) { f.Fuzz(rapid.MakeFuzz(propRequestSurvivesTheWire)) }

func propRequestSurvivesTheWire(rt *rapid.T) {
	{
		c := drawRequest(rt)
		qt := qtypes[rapid.IntRange(0, len(qtypes)-1).Draw(rt, "qtype")]
		c.QType = qt.String()
		failure := wireRoundTrip(c, qt)
		name := ""
		nearLimit := c.Near
		labels := []string{"cmd:" + c.Kind, "codec:" + c.Codec}
		if c.Kind == "upstream-codec-probe" {
			p := c.Request.(*commands.TestUpstreamEncoderRequest).Pattern
			if bytes.ContainsAny(p, "\"();@$") || bytes.IndexFunc(p, func(r rune) bool { return r >= 0x7f }) >= 0 {
				nearLimit = true
				labels = append(labels, "escaped-pattern")
			}
		}
		if nearLimit {
			labels = append(labels, "near-limit")
		}
		_ = name
		vlib.Rec.Case(fmt.Sprintf("%s|%s|%s|%+v|%d", c.Kind, c.Codec, c.Domain, c.Request, c.PayLen), nearLimit, labels, func() interface{} {
			return map[string]interface{}{"command": c.Kind, "codec": c.Codec, "domain": c.Domain, "qtype": c.QType, "budget": c.Budget, "payload_len": c.PayLen, "request": fmt.Sprintf("%+v", c.Request)}
		})
		if failure != "" {
			vlib.Rec.Violation(map[string]interface{}{"property": "C09", "command": c.Kind, "codec": c.Codec, "domain": c.Domain, "qtype": c.QType, "budget": c.Budget, "payload_len": c.PayLen, "request": fmt.Sprintf("%+v", c.Request), "problem": failure})
			rt.Fatalf("C09 cmd=%s codec=%s domain=%q qtype=%s budget=%d payload=%d: %s", c.Kind, c.Codec, c.Domain, c.QType, c.Budget, c.PayLen, failure)
		}
	}
}

// TestEveryBudgetBoundary walks every payload length 0..budget for a set of domains and every codec.
func TestEveryBudgetBoundary(t *testing.T) {
	domains := []string{"a.b", "example.org", "Tunnel.Example.ORG", strings.Repeat("a", 40) + "." + strings.Repeat("b", 40) + ".net", strings.Repeat("x", 60) + "." + strings.Repeat("y", 55)}
	for _, dom := range domains {
		for _, e := range upCodecs {
			budget := upstreamBudget(dom, e)
			step := 1
			if !vlib.Thorough() && budget > 60 {
				step = 3
			}
			for n := 0; n <= int(budget); n += step {
				if n+step > int(budget) {
					n = int(budget)
				}
				c := reqCase{Kind: "packet", Codec: e.Name(), Domain: dom, Budget: budget, PayLen: n,
					Request: &commands.PacketRequest{UserId: uint16(n % 1296), LastAckedSeqNo: uint16(n * 7), Packet: &util.Packet{SeqNo: uint16(65535 - n), Data: vlib.PRF(uint64(n), 0, n)}}}
				failure := wireRoundTrip(c, util.QueryTypeNull)
				vlib.Rec.Case(fmt.Sprintf("boundary|%s|%s|%d", e.Name(), dom, n), n >= int(budget)-8, []string{"boundary-walk", "codec:" + e.Name()}, func() interface{} {
					return map[string]interface{}{"command": "packet", "codec": e.Name(), "domain": dom, "budget": budget, "payload_len": n}
				})
				if failure != "" {
					vlib.Rec.Violation(map[string]interface{}{"property": "C09", "command": "packet", "codec": e.Name(), "domain": dom, "budget": budget, "payload_len": n, "problem": failure})
					t.Errorf("C09 packet codec=%s domain=%q budget=%d payload=%d: %s", e.Name(), dom, budget, n, failure)
					break
				}
				if n == int(budget) {
					break
				}
			}
		}
	}
}
