#!/bin/sh
# usage: tools_try_patch.sh <patch.diff> <ID> [tier]   -- applies the patch to a scratch worktree of /repo, runs the check there, removes the worktree
set -u
P=$(realpath "$1"); ID=$2; TIER=${3:-quick}
WT=/tmp/wt-try-$$
git -C /repo worktree add -q --detach "$WT" HEAD || exit 3
( cd "$WT" && git apply "$P" ) || { git -C /repo worktree remove --force "$WT"; echo "patch does not apply"; exit 3; }
VERIF_REPO="$WT" /verif/check "$ID" --tier "$TIER" > /tmp/try-$$.log 2>&1; rc=$?
grep -E "^(VIOLATION|KNOWN-FINDING|INCONCLUSIVE|check |BUILD)" /tmp/try-$$.log | cut -c1-400
echo "exit=$rc (log /tmp/try-$$.log)"
git -C /repo worktree remove --force "$WT"
exit $rc
