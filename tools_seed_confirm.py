#!/usr/bin/env python3
"""Independent confirmation of seeded changes and recording under /verif/seeded/<name>/.

usage: tools_seed_confirm.py <seed-name> <source SEED dir> <property> <demo go-test args> <checks,comma> [--place <dir in module>]

For one seeded change it: creates a scratch worktree of /repo HEAD, applies the patch, builds, runs the existing suite,
runs the demonstration with the change (must fail) and without it (must pass), runs the named checks against the patched
tree (must report a VIOLATION), writes /verif/seeded/<name>/{patch.diff,demo/*,meta.json} and removes the worktree.
"""
import json, os, shutil, subprocess, sys, time, random

ENV = dict(os.environ, GOFLAGS="-mod=mod", GOPROXY="off", GOSUMDB="off", GOTOOLCHAIN="local")

def ns(cmd):
    """run cmd in a private network namespace: the suite binds fixed ports, other runs on this machine would collide"""
    return "unshare -n sh -c 'ip link set lo up; %s'" % cmd.replace("'", "'\\''")


def sh(cmd, cwd, timeout=1500):
    p = subprocess.run(cmd, cwd=cwd, env=ENV, shell=True, stdout=subprocess.PIPE, stderr=subprocess.STDOUT, text=True, timeout=timeout)
    return p.returncode, p.stdout

def main():
    name, src, prop, demo_args, checks = sys.argv[1:6]
    place = None
    if "--place" in sys.argv:
        place = sys.argv[sys.argv.index("--place") + 1]
    meta = json.load(open(os.path.join(src, "meta.json")))
    wt = "/tmp/wt-confirm-%s-%d" % (name, os.getpid())
    subprocess.run(["git", "-C", "/repo", "worktree", "add", "-q", "--detach", wt, "HEAD"], check=True)
    out = {"seed": name, "property": prop}
    try:
        rc, o = sh("git apply --3way %s" % os.path.join(src, "patch.diff"), wt)
        if rc != 0:
            rc, o = sh("git apply %s" % os.path.join(src, "patch.diff"), wt)
        out["patch_applies"] = rc == 0
        if rc != 0:
            print("PATCH DOES NOT APPLY\n" + o); return 3
        sh("git reset -q", wt)
        rc, patch = sh("git diff", wt)
        rc, o = sh("go build ./...", wt)
        out["builds"] = rc == 0
        if rc != 0:
            print("BUILD FAILS\n" + o[-2000:]); return 3
        # the suite has one test the baseline itself lists as flaky (Test_ConnectionViaNetwork) and uses fixed ports:
        # a failure is retried; only a suite that fails four times in a row counts as failing with the change
        for attempt in range(4):
            rc, o = sh(ns("go test -vet=off -count=1 ./..."), wt)
            if rc != 0:
                time.sleep(random.randint(3, 15)); continue
            break
        out["suite_passes_with_change"] = rc == 0
        if rc != 0:
            print("SUITE FAILS WITH CHANGE\n" + "\n".join(l for l in o.splitlines() if l.startswith(("--- FAIL", "FAIL", "panic"))))
        # place the demonstration
        demo_src = os.path.join(src, "demo")
        placed = []
        for r, _, fs in os.walk(demo_src):
            for f in fs:
                if not f.endswith(".go"):
                    continue
                rel = os.path.relpath(os.path.join(r, f), demo_src)
                if os.sep in rel:
                    dst = os.path.join(wt, rel)
                else:
                    d = place or os.path.dirname(meta["demo_place"].split()[0])
                    if "system" in f and place is None and "zz_seed_demo/" not in meta["demo_place"].split()[0]:
                        continue  # optional second demo of a seed: skipped
                    dst = os.path.join(wt, d, f)
                os.makedirs(os.path.dirname(dst), exist_ok=True)
                shutil.copyfile(os.path.join(r, f), dst)
                placed.append(os.path.relpath(dst, wt))
        out["demo_files"] = placed
        cmd = "go test -vet=off -count=1 " + demo_args
        rc_with, o_with = sh(ns(cmd), wt)
        out["demo_with_change_rc"] = rc_with
        # revert the source change only
        changed = [l[6:] for l in patch.splitlines() if l.startswith("+++ b/")]
        sh("git checkout -- " + " ".join(changed), wt)
        for f in [l[6:] for l in patch.splitlines() if l.startswith("+++ b/")]:
            pass
        # files newly created by the patch
        rc_without, o_without = sh(ns(cmd), wt)
        out["demo_without_change_rc"] = rc_without
        # re-apply and run the checks
        open(os.path.join(wt, ".seed.diff"), "w").write(patch)
        sh("git apply .seed.diff", wt)
        for p in placed:
            os.remove(os.path.join(wt, p))
        verdicts = {}
        for cid in [c for c in checks.split(",") if c]:
            env = dict(ENV, VERIF_REPO=wt)
            p = subprocess.run(["/verif/check", cid, "--tier", "quick"], env=env, stdout=subprocess.PIPE, stderr=subprocess.STDOUT, text=True)
            line = [l for l in p.stdout.splitlines() if l.startswith(("VIOLATION", "INCONCLUSIVE"))]
            verdicts[cid] = {"exit": p.returncode, "line": (line[0] if line else "")[:200]}
        out["checks"] = verdicts
        ok = out["suite_passes_with_change"] and rc_with != 0 and rc_without == 0
        out["confirmed"] = bool(ok)
        dst = os.path.join("/verif/seeded", name)
        shutil.rmtree(dst, ignore_errors=True)
        os.makedirs(os.path.join(dst, "demo"))
        open(os.path.join(dst, "patch.diff"), "w").write(patch)
        for r, _, fs in os.walk(demo_src):
            for f in fs:
                if f.endswith(".go"):
                    rel = os.path.relpath(os.path.join(r, f), demo_src)
                    os.makedirs(os.path.dirname(os.path.join(dst, "demo", rel)), exist_ok=True)
                    shutil.copyfile(os.path.join(r, f), os.path.join(dst, "demo", rel))
        m = {
            "property": prop,
            "summary": meta.get("summary"),
            "why_it_breaks": meta.get("why_it_breaks"),
            "needs_to_manifest": meta.get("needs_to_manifest"),
            "origin": "produced by an independent sub-agent that was given only the property text and its own scratch worktree",
            "demo_files_placed_at": placed,
            "demo_cmd": cmd,
            "confirmed_by_me": {
                "how": "tools_seed_confirm.py in a fresh worktree of /repo HEAD %s" % subprocess.run(["git", "-C", "/repo", "rev-parse", "--short", "HEAD"], capture_output=True, text=True).stdout.strip(),
                "builds": out["builds"], "existing_suite_passes_with_change": out["suite_passes_with_change"],
                "demo_fails_with_change": rc_with != 0, "demo_passes_without_change": rc_without == 0,
            },
            "checks_run_against_it": verdicts,
        }
        json.dump(m, open(os.path.join(dst, "meta.json"), "w"), indent=1)
        print(json.dumps(out))
        return 0 if ok else 1
    finally:
        subprocess.run(["git", "-C", "/repo", "worktree", "remove", "--force", wt], stdout=subprocess.DEVNULL, stderr=subprocess.DEVNULL)

if __name__ == "__main__":
    sys.exit(main())
